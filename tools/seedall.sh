#!/bin/bash
# tools/seedall.sh : run every kept seeded change against the quick check of the property it breaks;
# writes /verif/seeded/RESULTS.txt (one line per seed). /repo must be clean and otherwise idle.
cd /verif
out=/verif/seeded/RESULTS.txt
: > $out.tmp
for d in $(ls -d seeded/C*-* | sort); do
  s=$(basename $d)
  r=$(tools/seedcheck.sh $s 2>&1)
  line=$(echo "$r" | grep "^SEEDCHECK" | tail -1)
  first=$(echo "$r" | grep -m1 "  harness=" | sed 's/^ *//' | cut -c1-220)
  echo "$line | $first" >> $out.tmp
  echo "$line"
done
mv $out.tmp $out
