#!/bin/bash
# tools/seedall.sh [seed ...] : run every kept seeded change (or the ones named) against the quick
# check of the property it breaks; writes /verif/seeded/RESULTS.txt (one line per seed).
# Default: one after the other on /repo itself (apply, check, undo) - /repo must be clean and idle.
# SEEDREPOS="<dir> <dir> ..." : scratch worktrees of /repo at its HEAD (git -C /repo worktree add
# --detach <dir> HEAD), used in parallel instead of /repo, one runner each; the 16 workers are
# shared out between them. The result is the same - the engine reads the tree it is pointed at
# (GOSYM_REPO) - and /repo stays free for other runs.
cd /verif
out=/verif/seeded/RESULTS.txt
tmp=$(mktemp -d /tmp/seedall.XXXXXX)
seeds=("$@")
[ ${#seeds[@]} -eq 0 ] && seeds=($(ls -d seeded/C*-* | sort | xargs -n1 basename))
repos=(${SEEDREPOS:-/repo})
k=${#repos[@]}
w=$((16 / k)); [ $w -lt 2 ] && w=2
runner() { # $1 = index of the runner
  local i=$1 n=0
  for s in "${seeds[@]}"; do
    if [ $((n % k)) -eq $i ]; then
      local r line first
      if [ "${repos[$i]}" = /repo ]; then
        r=$(GOSYM_WORKERS=$w GOSYM_REPLAY_DIR=$tmp/replays$i SEEDEVID=$tmp/evidence$i tools/seedcheck.sh $s 2>&1)
      else
        r=$(SEEDREPO=${repos[$i]} GOSYM_WORKERS=$w GOSYM_REPLAY_DIR=$tmp/replays$i SEEDEVID=$tmp/evidence$i tools/seedcheck.sh $s 2>&1)
      fi
      line=$(echo "$r" | grep "^SEEDCHECK" | tail -1)
      first=$(echo "$r" | grep -m1 "  harness=" | sed 's/^ *//' | cut -c1-220)
      echo "$line | $first" > $tmp/$s.res
      echo "$line"
    fi
    n=$((n + 1))
  done
}
for ((i = 0; i < k; i++)); do runner $i & done
wait
# merge: keep earlier lines of seeds that were not re-run
touch $out
{ for s in "${seeds[@]}"; do cat $tmp/$s.res; done; grep -v -F -f <(printf 'SEEDCHECK %s \n' "${seeds[@]}") $out; } | grep "^SEEDCHECK" | sort -u -k2,2 > $out.new
mv $out.new $out
rm -rf $tmp
