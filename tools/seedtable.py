#!/usr/bin/env python3
"""Prints the markdown table of seeded changes for DESIGN.md 0.6 from seeded/*/meta.json and seeded/RESULTS.txt."""
import json, glob, os, re
D = os.path.dirname(os.path.dirname(os.path.abspath(__file__)))
res = {}
p = os.path.join(D, "seeded", "RESULTS.txt")
if os.path.exists(p):
    for l in open(p):
        m = re.match(r"SEEDCHECK (\S+) check=(\S+) exit=(\d+) \| ?(.*)", l.strip())
        if m:
            res[m.group(1)] = (m.group(3), m.group(4))
print("| seed | what was changed | needs | caught by (first reported obligation) |")
print("|---|---|---|---|")
for d in sorted(glob.glob(os.path.join(D, "seeded", "C*-*"))):
    s = os.path.basename(d)
    m = json.load(open(os.path.join(d, "meta.json")))
    ex, first = res.get(s, ("?", ""))
    hm = re.search(r"harness=(\S+) obligation=\"([^\"]*)\"", first)
    caught = "**missed**" if ex != "1" else ("`%s`: %s" % (hm.group(1).split("[")[0], hm.group(2)[:90]) if hm else "exit 1")
    title = m.get("title", "").replace("|", "/")[:150]
    needs = m.get("needs_to_manifest", "").replace("|", "/").replace("\n", " ")[:140]
    print("| %s | %s | %s | %s |" % (s, title, needs, caught))
