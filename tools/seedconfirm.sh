#!/bin/bash
# tools/seedconfirm.sh <Cxx> <n> : confirm a seeded change delivered under /tmp/seed/<Cxx>/SEEDED/<n>
# in the scratch worktree (suite passes with the change; demo fails with it and passes without),
# then store it as /verif/seeded/<Cxx>-<n>/. SEEDROOT=/tmp/seed2 SEEDOFF=2 for the second (blind) round.
set -u
P=$1; N=$2
ROOT=${SEEDROOT:-/tmp/seed}; OFF=${SEEDOFF:-0}
WT=$ROOT/$P
S=$WT/SEEDED/$N
export GOFLAGS=-mod=mod GOPROXY=off GOSUMDB=off
cd $WT || exit 2
git checkout -q -- . 2>/dev/null
DEMO=$(ls $S/*_test.go 2>/dev/null | head -1)
DIR=$(python3 -c "import json;print(json.load(open('$S/meta.json')).get('demo_package_dir','').strip('/'))")
[ -z "$DIR" ] && DIR=$(grep -m1 -o 'place in: *[^ ]*' $DEMO | sed 's/place in: *//')
LOG=$S/confirm.log; : > $LOG
echo "demo=$DEMO dir=$DIR" >> $LOG
rundemo() { cp $DEMO $WT/$DIR/zz_seed_demo_test.go; (cd $WT && go test -vet=off -count=1 ./$DIR/ 2>&1 | tail -15); rc=${PIPESTATUS[0]}; rm -f $WT/$DIR/zz_seed_demo_test.go; }
# 1. unchanged tree: demo passes
out=$(rundemo); echo "--- demo on unchanged tree:" >> $LOG; echo "$out" >> $LOG
if echo "$out" | grep -q "^ok"; then A=pass; else A=fail; fi
# 2. with the change
git apply $S/patch.diff || { echo "PATCH DOES NOT APPLY" | tee -a $LOG; exit 1; }
b=$(go build ./... 2>&1 | grep -v "^go: downloading" | tail -5); echo "--- build with change: ${b:-ok}" >> $LOG
[ -d SEEDED ] && mv SEEDED $ROOT/.SEEDED_$P
suite=$(go test -vet=off -count=1 ./... 2>&1 | grep -v "no test files" | tail -20)
[ -d $ROOT/.SEEDED_$P ] && mv $ROOT/.SEEDED_$P SEEDED
echo "--- suite with change:" >> $LOG; echo "$suite" >> $LOG
if echo "$suite" | grep -q "FAIL"; then B=fail; else B=pass; fi
out=$(rundemo); echo "--- demo with change:" >> $LOG; echo "$out" >> $LOG
if echo "$out" | grep -q "FAIL\|panic"; then C=fail; else C=pass; fi
git checkout -q -- .
echo "RESULT $P-$N unchanged-demo=$A suite-with-change=$B demo-with-change=$C" | tee -a $LOG
if [ $A = pass ] && [ $B = pass ] && [ $C = fail ] && [ -z "$b" ]; then
  D=/verif/seeded/$P-$((N+OFF)); mkdir -p $D
  cp $S/patch.diff $D/; cp $DEMO $D/; cp $S/confirm.log $D/
  python3 - <<PY
import json
m=json.load(open('$S/meta.json'))
m['breaks_property']='$P'
m['confirmed']={'worktree':'scratch git worktree of /repo under /tmp (removed afterwards)','demo_on_unchanged_tree':'pass','existing_suite_with_change':'pass','demo_with_change':'fail','log':'confirm.log'}
json.dump(m,open('$D/meta.json','w'),indent=1)
PY
  echo "KEPT $D"
else
  echo "REJECTED $P-$N"
fi
