#!/usr/bin/env python3
"""Regenerates /verif/MANIFEST.json from checks/*.json (one check per property that has a spec)."""
import json, glob, os, sys
D = os.path.dirname(os.path.dirname(os.path.abspath(__file__)))
props = [json.loads(l) for l in open(os.path.join(D, "properties.jsonl"))]
specs = {}
for f in sorted(glob.glob(os.path.join(D, "checks", "C*.json"))):
    s = json.load(open(f))
    specs[s["property"]] = s
na_reasons = {}
p = os.path.join(D, "checks", "not_applicable.json")
if os.path.exists(p):
    na_reasons = json.load(open(p))
checks, na = [], []
for pr in props:
    pid = pr["id"]
    s = specs.get(pid)
    if not s or s.get("disabled"):
        na.append({"property_id": pid, "reason": na_reasons.get(pid, "no solver-based check registered yet for this property (harnesses not written); see DESIGN.md section 4 for the plan")})
        continue
    nh = len(s["harnesses"])
    checks.append({
        "property_id": pid,
        "quick_cmd": "./check %s quick" % pid,
        "thorough_cmd": "./check %s thorough" % pid,
        "evidence_file": "/verif/evidence/%s.json" % pid,
        "replay_cmd_template": "./check replay {path}",
        "engine": "gosym",
        "level_claimed": {
            "category": "model_checking",
            "text": s.get("level_text", "Bounded symbolic model checking of the real code: the go/ssa of /repo's working tree is executed symbolically (%d harnesses); every harness assertion is decided by an SMT solver for all inputs within the stated bounds; counterexamples are replayed natively with go test before being reported." % nh),
            "design_ref": "DESIGN.md section 4, " + pid,
        },
        "level_note": "Trusted: the gosym executor and its intrinsics (environment stubs listed in the evidence), the harness oracles, z3 5.1.0 (final VCs re-decided by z3 4.8.12 and cvc5). Assumptions: " + "; ".join(s.get("assumptions", [])) + ". Outside the claim: " + "; ".join(s.get("outside", [])),
        "technique": "bounded symbolic execution of go/ssa + SMT (z3, cvc5), native replay of counterexamples",
    })
m = {
    "version": 1,
    "setup_cmd": "cd /verif/engine && GOFLAGS=-mod=mod GOPROXY=off GOSUMDB=off GOTOOLCHAIN=local go build -o /verif/bin/gosym . && cd /verif && ./bin/gosym selftest",
    "hooks": {
        "guard": "verif",
        "enable": "no source commit in /repo: harness files (all carrying //go:build verif) are injected add-only as /repo/<pkg>/zz_verif_*.go by go/packages Overlay for the engine and by `go test -tags verif -overlay` for native replay",
        "baseline_off_cmd": "cd /repo && go build ./... && go test -vet=off -count=1 -timeout 25m ./...",
        "source_commits": [],
        "add_only": True,
    },
    "engines": [{"name": "gosym", "path": "/verif/engine", "serves_properties": [c["property_id"] for c in checks],
                 "kind_free_text": "symbolic executor for go/ssa written for this task; SMT-LIB2 over pipes to z3 5.1.0, cross-checked by z3 4.8.12 and cvc5 1.0"}],
    "checks": checks,
    "not_applicable": na,
    "notes": "Every check loads /repo's current working tree on each run (go/packages + go/ssa); nothing is cached between runs. Known findings: /verif/known_findings.txt. Seeded changes: /verif/seeded/.",
}
json.dump(m, open(os.path.join(D, "MANIFEST.json"), "w"), indent=1)
print("MANIFEST.json:", len(checks), "checks,", len(na), "not_applicable")
