#!/bin/bash
# tools/seedcheck.sh <seed-dir-name> [Cxx ...] : apply a kept seeded change to /repo, run the quick
# check(s) (default: the property the change breaks), undo the change straight afterwards.
set -u
SD=/verif/seeded/$1; shift
P=$(python3 -c "import json;print(json.load(open('$SD/meta.json'))['breaks_property'])")
PROPS=${@:-$P}
cd /repo || exit 2
if [ -n "$(git status --porcelain)" ]; then echo "/repo not clean"; exit 2; fi
git apply $SD/patch.diff || { echo "PATCH DOES NOT APPLY to /repo HEAD"; exit 3; }
for p in $PROPS; do
  out=$(cd /verif && GOSYM_EVIDENCE_DIR=/tmp/seed/evidence GOSYM_NOWITNESS=1 ./check $p quick 2>&1); rc=$?
  echo "$out" | grep -E "^(VIOLATION|KNOWN|UNCONFIRMED|ERROR|  harness|check )" | cut -c1-260 | head -12
  echo "SEEDCHECK $(basename $SD) check=$p exit=$rc"
done
git -C /repo checkout -- .
