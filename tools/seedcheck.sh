#!/bin/bash
# tools/seedcheck.sh <seed-dir-name> [Cxx ...] : apply a kept seeded change to /repo, run the quick
# check(s) (default: the property the change breaks), undo the change straight afterwards.
set -u
SD=/verif/seeded/$1; shift
P=$(python3 -c "import json;print(json.load(open('$SD/meta.json'))['breaks_property'])")
PROPS=${@:-$P}
# SEEDREPO=<scratch worktree at /repo's HEAD>: use that tree instead of /repo (while /repo is busy with a long run)
R=${SEEDREPO:-/repo}
cd $R || exit 2
if [ -n "$(git status --porcelain | grep -v '^??')" ]; then echo "$R not clean"; exit 2; fi
git apply $SD/patch.diff || { echo "PATCH DOES NOT APPLY to $R HEAD"; exit 3; }
for p in $PROPS; do
  out=$(cd /verif && GOSYM_REPO=$R GOSYM_EVIDENCE_DIR=${SEEDEVID:-/tmp/seed/evidence} GOSYM_NOWITNESS=1 ./check $p quick 2>&1); rc=$?
  echo "$out" | grep -E "^(VIOLATION|KNOWN|UNCONFIRMED|ERROR|  harness|check )" | cut -c1-260 | head -12
  echo "SEEDCHECK $(basename $SD) check=$p exit=$rc"
done
git -C $R checkout -- .
