//go:build verif

package path

func vPath(prefix string) Path {
	names := map[string][]string{"p": {"p0", "p1", "p2"}, "q": {"q0", "q1", "q2"}}[prefix]
	n := vChoose(prefix+".n", 0, 3)
	var p Path
	for i := 0; i < n; i++ {
		p = append(p, vString(names[i], 2))
	}
	return p
}

// H_C20_path_spec: Within / Equal / Compare on two paths of 0..3 components, every component a
// symbolic string of <= 2 bytes, against their specifications.
func H_C20_path_spec() {
	p, q := vPath("p"), vPath("q")
	// reference: componentwise
	eq := len(p) == len(q)
	pref := len(q) <= len(p) // q is a prefix of p
	for i := 0; i < 3; i++ {
		if i < len(p) && i < len(q) {
			same := p[i] == q[i]
			eq = vAnd(eq, same)
			pref = vAnd(pref, same)
		}
	}
	vReach("compared")
	vAssert(p.Equal(q) == eq, "Equal is componentwise equality")
	vAssert(p.Within(q) == vAnd(pref, len(p) > len(q)), "Within is 'q is a strict prefix of p'")
	c, d := p.Compare(q), q.Compare(p)
	vAssert((c == 0) == eq, "Compare is 0 exactly for equal paths")
	vAssert(vImp(c < 0, d > 0) && vImp(c > 0, d < 0), "Compare is antisymmetric")
	vAssert(vImp(p.Within(q), q.Compare(p) < 0), "a directory sorts before its contents")
}
