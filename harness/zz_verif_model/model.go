//go:build verif

// Package zz_verif_model holds executable models, written in plain Go, of library types whose
// real implementation the engine does not enter (sync.Map, math/rand permutations ...). The
// engine redirects the listed library calls to these functions; native builds never use them.
package zz_verif_model

import (
	"math/rand/v2"
	"sync"
)

type kv struct{ k, v interface{} }

var maps = map[*sync.Map][]kv{}

func MapLoad(m *sync.Map, k interface{}) (interface{}, bool) {
	for _, e := range maps[m] {
		if e.k == k {
			return e.v, true
		}
	}
	return nil, false
}

func MapStore(m *sync.Map, k, v interface{}) {
	l := maps[m]
	for i := range l {
		if l[i].k == k {
			l[i].v = v
			return
		}
	}
	maps[m] = append(l, kv{k, v})
}

func MapLoadOrStore(m *sync.Map, k, v interface{}) (interface{}, bool) {
	if a, ok := MapLoad(m, k); ok {
		return a, true
	}
	MapStore(m, k, v)
	return v, false
}

func MapDelete(m *sync.Map, k interface{}) {
	l := maps[m]
	for i := range l {
		if l[i].k == k {
			n := make([]kv, 0, len(l)-1)
			n = append(n, l[:i]...)
			n = append(n, l[i+1:]...)
			maps[m] = n
			return
		}
	}
}

func MapRange(m *sync.Map, f func(k, v interface{}) bool) {
	l := maps[m]
	for i := 0; i < len(l); i++ {
		if !f(l[i].k, l[i].v) {
			return
		}
	}
}

// RandPerm: the identity permutation (order is not relied upon by any oracle; harnesses that
// care about the order enumerate it themselves).
func RandPerm(r *rand.Rand, n int) []int {
	p := make([]int, n)
	for i := range p {
		p[i] = i
	}
	return p
}

func RandPermGlobal(n int) []int { return RandPerm(nil, n) }

// Nop stands for a context's cancel function.
func Nop() {}
