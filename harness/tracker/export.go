//go:build verif

package tracker

// VNew builds a tracker of the given kind (0 HTTP, 1 UDP, 2 Unknown) without parsing the URL.
func VNew(url string, kind int) Tracker {
	switch kind {
	case 0:
		return &HTTP{base: base{url: url}}
	case 1:
		return &UDP{base: base{url: url}}
	}
	return &Unknown{base: base{url: url}}
}
