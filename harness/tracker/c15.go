//go:build verif

package tracker

import (
	"bytes"
	"context"
	"net"
	"net/netip"
	nurl "net/url"
	"time"
)

func vDialDgram(d *net.Dialer, ctx context.Context, network, address string) (net.Conn, error) {
	return &vDgramConn{}, nil
}

// a datagram connection whose every Read delivers an arbitrary datagram (length 0..48,
// arbitrary bytes) or fails, and whose Write may fail
type vDgramConn struct {
	reads  int
	writes int
}

var vDgNames = []string{"dg0", "dg1", "dg2", "dg3", "dg4"}

func (c *vDgramConn) Read(b []byte) (int, error) {
	k := c.reads
	c.reads++
	if k >= len(vDgNames) {
		return 0, net.ErrClosed
	}
	if err := vNondetErr("read"); err != nil {
		return 0, err
	}
	d := vBytes(vDgNames[k], 48)
	return copy(b, d), nil
}
func (c *vDgramConn) Write(b []byte) (int, error) {
	c.writes++
	if err := vNondetErr("write"); err != nil {
		return 0, err
	}
	return len(b), nil
}
func (c *vDgramConn) Close() error                       { return nil }
func (c *vDgramConn) LocalAddr() net.Addr                { return nil }
func (c *vDgramConn) RemoteAddr() net.Addr               { return nil }
func (c *vDgramConn) SetDeadline(t time.Time) error      { return nil }
func (c *vDgramConn) SetReadDeadline(t time.Time) error  { return nil }
func (c *vDgramConn) SetWriteDeadline(t time.Time) error { return nil }

// H_C15_udpRequestReply: any sequence of datagrams / failures over the (up to 4) attempts:
// a reader positioned after the 8-byte header of a reply with the expected action and OUR
// transaction id, or an error - never a panic.
func H_C15_udpRequestReply() {
	c := &vDgramConn{}
	action := uint32(vChoose("action", 0, 1))
	tid := vU32("tid")
	min := 16
	if action == 1 {
		min = 20
	}
	r, err := udpRequestReply(context.Background(), c, []byte{1, 2, 3}, min, action, tid) // a panic is the violation
	vAssert((r == nil) != (err == nil), "a reader or an error, never both, never neither")
	vAssert(c.writes <= 4 && c.reads <= 4, "at most four attempts")
	if err != nil {
		vReach("error")
		return
	}
	vReach("reply")
	k := c.reads - 1
	d := vBytes(vDgNames[k], 48)
	vAssert(len(d) >= min, "accepted replies have at least the minimum length")
	vAssert(uint32(d[0])<<24|uint32(d[1])<<16|uint32(d[2])<<8|uint32(d[3]) == action, "only the expected action is accepted")
	vAssert(uint32(d[4])<<24|uint32(d[5])<<16|uint32(d[6])<<8|uint32(d[7]) == tid, "only our own transaction id is accepted")
	vAssert(r.Len() == len(d)-8, "the reader is positioned after the 8-byte header")
}

// H_C15_discipline: one Announce on a tracker in an arbitrary state (last-announce time,
// interval, error, clock), the network part cut (arbitrary interval and outcome): the busy
// flag is released on every path, the network is contacted only if the larger of five minutes
// and the stored interval has elapsed, and the tracker is not reported busy afterwards.
// Parameter kind: 0 HTTP (no proxy: two families in parallel), 1 HTTP via proxy, 2 UDP.
func H_C15_discipline() {
	b := base{url: "u", interval: time.Duration(vI64("interval"))}
	last := vNow()
	b.time = time.Unix(0, 0).Add(time.Duration(last))
	vAssume(b.interval >= 0 && b.interval <= 3000*time.Hour)
	if vBool("locked") {
		b.locked = 1
	}
	wasLocked := b.locked
	f := func(netip.AddrPort) bool { return true }
	var err error
	var tb *base
	kind := vParam("kind")
	switch kind {
	case 0:
		t := &HTTP{base: b}
		tb = &t.base
		err = t.Announce(context.Background(), nil, nil, 50, 1000, 1, 2, "", f)
	case 1:
		t := &HTTP{base: b}
		tb = &t.base
		err = t.Announce(context.Background(), nil, nil, 50, 1000, 1, 2, "socks5://x", f)
	case 2:
		t := &UDP{base: b}
		tb = &t.base
		err = t.Announce(context.Background(), nil, nil, 50, 1000, 1, 2, "", f)
	}
	now := vNow()
	contacted := vEffect("cut:announceHTTP") + vEffect("cut:announceUDP")
	vAssert(tb.locked == wasLocked, "the busy flag is left as it was found (released after an attempt)")
	if wasLocked == 1 {
		vReach("was-busy")
		vAssert(err == ErrNotReady && contacted == 0, "a busy tracker is not contacted")
		return
	}
	st, _ := tb.GetState()
	vAssert(st != Busy, "the tracker is never left stuck in the busy state")
	eff := b.interval
	if eff <= 0 {
		eff = 30 * time.Minute
	}
	if eff < 5*time.Minute {
		eff = 5 * time.Minute
	}
	if contacted > 0 {
		vReach("contacted")
		vAssert(now-last > int64(eff), "contacted only after max(5 min, interval) has elapsed since the last attempt")
		vAssert(contacted <= 2, "at most one announce per address family")
	} else {
		vReach("not-contacted")
	}
	_ = err
}

// H_C15_http_tail: announceHTTP with the HTTP exchange as environment (any status) and the
// decoded reply an ARBITRARY value: failure reason / retry strings, any interval, compact
// peers of any length 0..19, peers6 of any length 0..37: an error, or exactly the peers encoded
// in the reply are reported - never a panic.
func H_C15_http_tail() {
	reply := httpReply{FailureReason: vString("fail", 2), RetryIn: vString("retry", 4), Interval: vInt("interval"),
		Peers: vBytes("rawpeers", 8), Peers6: vBytes("peers6", 37)}
	peers := vBytes("peers", 19)
	_ = vBencode(&reply)
	_ = vBencode(&peers)
	t := &HTTP{base: base{url: "u"}}
	var got []netip.AddrPort
	f := func(a netip.AddrPort) bool { got = append(got, a); return true }
	iv, err := announceHTTP(context.Background(), "tcp4", t, nil, nil, 50, 1000, 1, "", f) // a panic is the violation
	if err != nil {
		vReach("error")
		return
	}
	vReach("ok")
	vAssert(iv == reply.Interval, "the announced interval is returned")
	want := 0
	if len(peers)%6 == 0 {
		want += len(peers) / 6
	}
	if len(reply.Peers6)%18 == 0 {
		want += len(reply.Peers6) / 18
	}
	if len(peers)%6 == 0 {
		vAssert(len(got) == want, "exactly the peers encoded in the reply are learnt")
	} else {
		// not compact: the dictionary form is tried (decoder stub: any list), peers6 still counts
		vAssert(len(got) >= want, "the IPv6 peers encoded in the reply are learnt")
	}
	if len(got) > 0 && len(peers)%6 == 0 && len(peers) >= 6 {
		vReach("v4-peer")
		a := got[0].Addr().As4()
		vAssert(a[0] == peers[0] && a[3] == peers[3] && got[0].Port() == uint16(peers[4])<<8|uint16(peers[5]), "compact IPv4 record decoded big-endian")
	}
}

var vUDPReplies [][]byte
var vUDPCalls int

// vRequestReply stands in for udpRequestReply under H_C15_udp_tail (the exchange itself is
// H_C15_udpRequestReply's subject): it hands back the next scripted datagram body.
func vRequestReply(ctx context.Context, conn net.Conn, request []byte, min int, action uint32, tid uint32) (*bytes.Reader, error) {
	if vUDPCalls >= len(vUDPReplies) {
		return nil, ErrParse
	}
	b := vUDPReplies[vUDPCalls]
	vUDPCalls++
	if len(b) < min-8 {
		return nil, ErrParse
	}
	return bytes.NewReader(b), nil
}

// H_C15_udp_tail: announceUDP with the two exchanges replaced by scripted replies: the connect
// reply's body (8 bytes, any connection id) and an announce reply whose body after the
// (action, transaction id) header is ANY 12..31 bytes: interval, leechers, seeders, then the peer
// list - of any length, a whole number of 6-byte records or not: an error, or exactly the peers
// encoded in the reply (one per complete record, decoded big-endian) - a truncated record is
// never turned into a peer - and never a panic.
func H_C15_udp_tail() {
	body := vBytes("body", 31)
	vAssume(len(body) >= 12)
	cid := vBytes("cid", 8)
	vAssume(len(cid) == 8)
	vUDPReplies = [][]byte{cid, body}
	vUDPCalls = 0
	var got []netip.AddrPort
	f := func(a netip.AddrPort) bool { got = append(got, a); return true }
	iv, err := announceUDP(context.Background(), "udp4", f, &nurl.URL{Host: "tracker:6969"}, make([]byte, 20), make([]byte, 20), 50, 1000, 1, "") // a panic is the violation
	n := (len(body) - 12) / 6
	whole := (len(body)-12)%6 == 0
	if err != nil {
		vReach("error")
		vAssert(len(got) <= n, "even on failure no more peers are learnt than the reply holds complete records")
		return
	}
	vReach("ok")
	vAssert(whole, "a reply that ends inside a peer record is an error")
	vAssert(len(got) == n, "exactly the peers encoded in the reply are learnt")
	vAssert(iv == time.Duration(uint32(body[0])<<24|uint32(body[1])<<16|uint32(body[2])<<8|uint32(body[3]))*time.Second, "the announced interval is returned")
	if n > 0 {
		vReach("peer")
		a := got[0].Addr().As4()
		vAssert(a[0] == body[12] && a[3] == body[15] && got[0].Port() == uint16(body[16])<<8|uint16(body[17]), "compact IPv4 record decoded big-endian")
	}
}
