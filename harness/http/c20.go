//go:build verif

package http

import (
	"context"
	"io"
	"net/http"

	"github.com/jech/storrent/hash"
	"github.com/jech/storrent/path"
	"github.com/jech/storrent/tor"
)

var vFN = [][]string{{"f0a", "f0b"}, {"f1a", "f1b"}, {"f2a", "f2b"}}
var vLN = []string{"l0", "l1", "l2"}

// H_C20_fileParms: for <= 3 files (paths of 1..2 components, every component a symbolic string of
// <= 2 bytes, so every equality pattern occurs) or a single-file torrent, and a lookup path of
// 0..3 symbolic components: fileParms returns (offset, length) of the FIRST file whose path
// equals the lookup path, and not-exist otherwise.
func H_C20_fileParms() {
	nf := vParam("files")
	t := &tor.Torrent{Name: vString("name", 2), Hash: make([]byte, 20)}
	var total int64
	for i := 0; i < nf; i++ {
		p := path.Path{vString(vFN[i][0], 2)}
		if vBool(vFN[i][1] + ".has") {
			p = append(p, vString(vFN[i][1], 2))
		}
		l := int64(vU16(vLN[i]))
		t.Files = append(t.Files, tor.Torfile{Path: p, Offset: total, Length: l})
		total += l
	}
	if nf == 0 {
		total = int64(vU16("total")) + 1
	}
	t.Pieces.MetadataComplete(16384, total+1)
	var look path.Path
	for i, n := 0, vChoose("look.n", 0, 3); i < n; i++ {
		look = append(look, vString([]string{"k0", "k1", "k2"}[i], 2))
	}
	off, length, _, err := fileParms(t, look)
	if nf == 0 {
		if len(look) == 1 && look[0] == t.Name {
			vReach("single-hit")
			vAssert(err == nil && off == 0 && length == t.Pieces.Length(), "a single-file torrent resolves exactly its name to the whole content")
		} else {
			vReach("single-miss")
			vAssert(err != nil, "a single-file torrent resolves nothing but its name")
		}
		return
	}
	want := -1
	for i := nf - 1; i >= 0; i-- {
		if look.Equal(t.Files[i].Path) {
			want = i
		}
	}
	if want >= 0 {
		vReach("hit")
		vAssert(err == nil && off == t.Files[want].Offset && length == t.Files[want].Length, "a path resolves to the offset and length of the first file with that path")
	} else {
		vReach("miss")
		vAssert(err != nil, "absent, partial or longer paths resolve to nothing")
	}
}

var vCraftedNames = []string{"a", "a/b", "/", "//", "a/", "/a"}

// H_C20_single_listing: the HTML entry and the playlist of a SINGLE-FILE torrent whose name is
// crafted (parameter name: plain, nested, only slashes, trailing / leading slash): listing it
// fails cleanly or succeeds - it never crashes.
func H_C20_single_listing() {
	name := vCraftedNames[vParam("name")]
	t := tor.VRegister(make([]byte, 20), name, nil, 100)
	vDead = false
	w := &vRW{}
	torrentEntry(context.Background(), w, t, nil) // a panic is the violation
	playlist(w, &http.Request{Method: "GET", Host: "localhost:8088"}, t, nil)
	vReach("listed")
}

var vRows []path.Path

// vFileRow stands in for torrentFile under H_C20_http_listing: it records which files are listed.
func vFileRow(w io.Writer, h hash.Hash, p path.Path, length int64, available int) {
	vRows = append(vRows, p)
}

var vAB = []string{"a", "b"}
var vLN2 = [][]string{{"g0.d", "g0.c0", "g0.c1"}, {"g1.d", "g1.c0", "g1.c1"}, {"g2.d", "g2.c0", "g2.c1"}}

// H_C20_http_listing: the HTML directory view of a multi-file torrent (<= 3 files, paths of 1..2
// components over {a,b}, directory at depth 0 or 1): exactly the files within the directory are
// listed, each once, in path order.
func H_C20_http_listing() {
	nf := vParam("files")
	var files []tor.Torfile
	for i := 0; i < nf; i++ {
		n := vChoose(vLN2[i][0], 1, 2)
		var p path.Path
		for k := 0; k < n; k++ {
			p = append(p, vAB[vChoose(vLN2[i][1+k], 0, 1)])
		}
		files = append(files, tor.Torfile{Path: p, Length: 10})
	}
	t := tor.VRegister(make([]byte, 20), "t", files, int64(10*nf)+1)
	var dir path.Path
	if vParam("dirdepth") == 1 {
		dir = path.Path{vAB[vChoose("d0", 0, 1)]}
	}
	vDead = false
	vRows = nil
	torrentEntry(vLiveContext(), &vRW{}, t, dir)
	vReach("listed")
	want := 0
	for _, f := range t.Files {
		if f.Path.Within(dir) {
			want++
			n := 0
			for _, r := range vRows {
				if r.Equal(f.Path) {
					n++
				}
			}
			same := 0
			for _, g := range t.Files {
				if g.Path.Equal(f.Path) {
					same++
				}
			}
			vAssert(n == same, "every file within the directory is listed, once per file")
		}
	}
	vAssert(len(vRows) == want, "nothing outside the directory is listed")
	for i := 0; i+1 < len(vRows); i++ {
		vAssert(vRows[i].Compare(vRows[i+1]) <= 0, "files are listed in path order")
	}
}

// vM3uRow stands in for m3uentry under H_C20_playlist: it records which files are listed.
func vM3uRow(w http.ResponseWriter, host string, h hash.Hash, p path.Path) {
	vRows = append(vRows, p)
}

// H_C20_playlist: the playlist of a directory of a multi-file torrent (<= 3 files, paths of 1..2
// components over {a,b}, directory at depth 0 or 1): exactly the files within the directory are
// listed, each once, in path order; a directory that holds no file is 'not found' and lists
// nothing.
func H_C20_playlist() {
	nf := vParam("files")
	var files []tor.Torfile
	for i := 0; i < nf; i++ {
		n := vChoose(vLN2[i][0], 1, 2)
		var p path.Path
		for k := 0; k < n; k++ {
			p = append(p, vAB[vChoose(vLN2[i][1+k], 0, 1)])
		}
		files = append(files, tor.Torfile{Path: p, Length: 10})
	}
	t := tor.VRegister(make([]byte, 20), "t", files, int64(10*nf)+1)
	var dir path.Path
	if vParam("dirdepth") == 1 {
		dir = path.Path{vAB[vChoose("d0", 0, 1)]}
	}
	vRows = nil
	playlist(&vRW{}, &http.Request{Method: "GET", Host: "localhost:8088"}, t, dir)
	want := 0
	for _, f := range t.Files {
		if f.Path.Within(dir) {
			want++
			n := 0
			for _, r := range vRows {
				if r.Equal(f.Path) {
					n++
				}
			}
			same := 0
			for _, g := range t.Files {
				if g.Path.Equal(f.Path) {
					same++
				}
			}
			vAssert(n == same, "every file within the directory is in the playlist, once per file")
		}
	}
	vAssert(len(vRows) == want, "nothing outside the directory is in the playlist")
	for i := 0; i+1 < len(vRows); i++ {
		vAssert(vRows[i].Compare(vRows[i+1]) <= 0, "playlist entries are in path order")
	}
	if want == 0 {
		vReach("not-found")
		vAssert(vEffect("env:net/http.NotFound") == 1, "a directory that holds no file of the torrent is not found")
	} else {
		vReach("listed")
		vAssert(vEffect("env:net/http.NotFound") == 0, "a directory that holds files is found")
	}
}

var vDirRows []path.Path

// vPathUrlRec stands in for pathUrl under H_C20_http_dirs: torrentDir calls it once per directory
// row (file rows are recorded by vFileRow and do not get here), so it records the directories
// the page names.
func vPathUrlRec(p path.Path) string {
	vDirRows = append(vDirRows, append(path.Path(nil), p...))
	return "x"
}

var vLN3 = [][]string{{"h0.d", "h0.c0", "h0.c1", "h0.c2"}, {"h1.d", "h1.c0", "h1.c1", "h1.c2"}, {"h2.d", "h2.c0", "h2.c1", "h2.c2"}}

// H_C20_http_dirs: the sub-directory rows of the HTML view of a multi-file torrent (<= 3 files,
// paths of 1..3 components over {a,b}, listed from the root): the directories named are exactly
// the directories that hold (directly or further down) a listed file - every proper non-empty
// prefix of a file's path - and no directory is named twice.
func H_C20_http_dirs() {
	nf := vParam("files")
	var files []tor.Torfile
	for i := 0; i < nf; i++ {
		n := vChoose(vLN3[i][0], 1, 3)
		var p path.Path
		for k := 0; k < n; k++ {
			p = append(p, vAB[vChoose(vLN3[i][1+k], 0, 1)])
		}
		files = append(files, tor.Torfile{Path: p, Length: 10})
	}
	t := tor.VRegister(make([]byte, 20), "t", files, int64(10*nf)+1)
	vDead = false
	vRows, vDirRows = nil, nil
	torrentEntry(vLiveContext(), &vRW{}, t, nil)
	vReach("listed")
	for i, d := range vDirRows {
		ok := false
		for _, f := range t.Files {
			if len(d) > 0 && len(d) < len(f.Path) && f.Path[:len(d)].Equal(d) {
				ok = true
			}
		}
		vAssert(ok, "a directory row names a directory that holds a file of the torrent")
		for j := 0; j < i; j++ {
			vAssert(!vDirRows[j].Equal(d), "no directory is named twice")
		}
	}
	for _, f := range t.Files {
		for k := 1; k < len(f.Path); k++ {
			n := 0
			for _, d := range vDirRows {
				if d.Equal(f.Path[:k]) {
					n++
				}
			}
			vAssert(n == 1, "every directory above a file is named exactly once")
		}
	}
}

// ---- the route handler: from the URL's {path...} value to the path that is looked up ----

var vRawPath string
var vGotPath path.Path
var vGotKind int

func vPathValue(r *http.Request, name string) string {
	if name == "hash" {
		return "0000000000000000000000000000000000000000"
	}
	return vRawPath
}
func vHashParse(s string) hash.Hash { return hash.Hash(make([]byte, 20)) }
func vRecFile(w http.ResponseWriter, r *http.Request, t *tor.Torrent, p path.Path) {
	vGotPath, vGotKind = p, 1
}
func vRecDirectory(w http.ResponseWriter, r *http.Request, t *tor.Torrent, p path.Path) {
	vGotPath, vGotKind = p, 2
}
func vRecPlaylist(w http.ResponseWriter, r *http.Request, t *tor.Torrent, p path.Path) {
	vGotPath, vGotKind = p, 3
}

// H_C20_handler_path: the real torHandler with the {path...} value of the request an arbitrary
// string of <= 4 bytes (net/http has already unescaped it once): the path handed to the file /
// directory / playlist view consists of exactly the bytes of that value, cut at the '/' bytes -
// nothing is decoded a second time, dropped or added - so a name is looked up as it is spelled.
func H_C20_handler_path() {
	tor.VRegister(make([]byte, 20), "t", []tor.Torfile{{Path: path.Path{"a"}, Length: 10}}, 11)
	vRawPath = vString("raw", 4)
	vGotPath, vGotKind = nil, 0
	r := &http.Request{Method: "GET", Host: "localhost:8088"}
	if vBool("playlist") {
		r.Form = map[string][]string{"playlist": {""}}
	}
	torHandler(&vRW{}, r)
	if vGotKind == 0 {
		vReach("not-served")
		return
	}
	vReach("served")
	raw := vRawPath
	j := 0
	for j < len(raw) && raw[j] == '/' {
		j++
	}
	for k, comp := range vGotPath {
		if k > 0 {
			vAssert(j < len(raw) && raw[j] == '/', "components are separated where the request's path has a '/'")
			j++
		}
		for b := 0; b < len(comp); b++ {
			vAssert(j < len(raw), "the looked-up path has no more bytes than the request's path")
			if j >= len(raw) {
				return
			}
			vAssert(comp[b] == raw[j] && comp[b] != '/', "the looked-up path is spelled exactly as the request's path")
			j++
		}
	}
	for j < len(raw) {
		vAssert(raw[j] == '/', "nothing of the request's path is dropped")
		j++
	}
}
