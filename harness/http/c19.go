//go:build verif

package http

import (
	"context"
	"net"
	"net/http"
	"net/netip"

	"github.com/jech/storrent/hash"
	"github.com/jech/storrent/known"
	"github.com/jech/storrent/path"
	"github.com/jech/storrent/peer"
	"github.com/jech/storrent/tor"
	"github.com/jech/storrent/tracker"
	"github.com/jech/storrent/webseed"
)

type vRW struct {
	writes int
	status int
	hdr    http.Header
}

func (w *vRW) Header() http.Header {
	if w.hdr == nil {
		w.hdr = http.Header{}
	}
	return w.hdr
}
func (w *vRW) Write(b []byte) (int, error) { w.writes++; return len(b), nil }
func (w *vRW) WriteHeader(s int)           { w.status = s }

var vHost string
var vIsIP bool

// models of the two library calls checkLocal is built on (uninterpreted host / is-an-IP-literal)
func vSplitHostPort(hp string) (string, string, error) {
	if vBool("split-fails") {
		return "", "", net.ErrClosed
	}
	return vHost, "80", nil
}
func vParseIP(s string) net.IP {
	if vIsIP {
		return net.IP{127, 0, 0, 1}
	}
	return nil
}

// H_C19_checkLocal: the Host check: a request is let through only if the host part is exactly
// "localhost" or an IP literal (host: any string of <= 12 bytes).
func H_C19_checkLocal() {
	vHost = vString("host", 12)
	vIsIP = vBool("isip")
	w := &vRW{}
	ok := checkLocal(w, &http.Request{Host: "x"})
	if ok {
		vReach("let-through")
		// DNS names are case-insensitive: "LocalHost" is the name 'localhost'
		isLocal := false
		if len(vHost) == 9 {
			isLocal = true
			for i := 0; i < 9; i++ {
				isLocal = vAnd(isLocal, vHost[i]|0x20 == "localhost"[i])
			}
		}
		vAssert(vOr(isLocal, vIsIP), "only 'localhost' or an IP literal passes the Host check")
		vAssert(vEffect("env:net/http.Error") == 0, "a request that passes is not answered here")
	} else {
		vReach("refused")
		vAssert(vEffect("env:net/http.Error") == 1, "a refused request gets an error reply")
	}
}

func vRefuse(w http.ResponseWriter, r *http.Request) bool { return false }
func vAccept(w http.ResponseWriter, r *http.Request) bool { return true }

// H_C19_handler_guard: every handler registered by Serve (parameter h: 0 root, 1 torrent root,
// 2 torrent) with the Host check refusing: the handler does nothing further - no reply is
// written, no header set, no library call made, no torrent looked up.
func H_C19_handler_guard() {
	w := &vRW{}
	r := &http.Request{Host: "evil.example", Method: vString("method", 4)}
	switch vParam("h") {
	case 0:
		rootHandler(w, r)
	case 1:
		torRootHandler(w, r)
	case 2:
		torHandler(w, r)
	}
	vReach("returned")
	vAssert(w.writes == 0 && w.status == 0 && w.hdr == nil, "a refused request reads and changes nothing: nothing written")
	vAssert(vEffects() == 0, "a refused request reads and changes nothing: no further call")
}


// handlers registered by Serve, collected by the models of http.HandleFunc / http.Handle
var vHandlers []func(http.ResponseWriter, *http.Request)
var vPatterns []string

func vHandleFunc(pattern string, h func(http.ResponseWriter, *http.Request)) {
	vPatterns = append(vPatterns, pattern)
	vHandlers = append(vHandlers, h)
}
func vHandle(pattern string, h http.Handler) {
	vPatterns = append(vPatterns, pattern)
	vHandlers = append(vHandlers, h.ServeHTTP)
}

// H_C19_serve: the real Serve with http.HandleFunc / http.Handle recording what is registered
// (listening is an environment call, the serving goroutine is not started): every handler that
// Serve registers - whatever their number - does nothing once the Host check refuses.
func H_C19_serve() {
	vHandlers = nil
	err := Serve("127.0.0.1:8088")
	if err != nil {
		return
	}
	// (how many handlers there are is not the property's business: whatever is registered is checked)
	for i := range vHandlers {
		e0 := vEffects()
		w := &vRW{}
		r := &http.Request{Host: "evil.example", Method: vString("method", 4)}
		vHandlers[i](w, r)
		vAssert(w.writes == 0 && w.status == 0 && w.hdr == nil, "a refused request reads and changes nothing: nothing written (registered handler)")
		vAssert(vEffects() == e0, "a refused request reads and changes nothing: no further call (registered handler)")
	}
	vReach("all-registered-handlers-refuse")
}

type vErr struct{ msg string }

func (e vErr) Error() string { return e.msg }

// H_C19_html: the HTML emitters with every torrent- / tracker- / peer-controlled string symbolic
// (<= 3 bytes each, any bytes): no attacker-controlled piece of the output may contain < > " '.
// Parameter page: 0 file row, 1 directory rows, 2 known-peer row (version from the extended
// handshake or derived from an Azureus-style peer id), 3 the torrent entry (name, files).
func H_C19_html() {
	vUnsafeClass(0)
	w := &vRW{}
	h := hash.Hash(make([]byte, 20))
	vZoned, vZone = vBool("zoned"), vString("zone", 3)
	switch vParam("page") {
	case 0:
		torrentFile(w, h, path.Path{vString("c0", 3), vString("c1", 3)}, 100, 1)
	case 1:
		torrentDir(w, h, path.Path{vString("c0", 3), vString("c1", 3)}, path.Path{vString("d0", 3)})
	case 2:
		id := vBytes("id", 20)
		vAssume(len(id) == 20)
		kp := &known.Peer{Addr: netip.AddrPortFrom(netip.AddrFrom4([4]byte{10, 0, 0, 1}), 1), Id: id[:20], Version: vString("version", 3)}
		hknown(w, kp, nil)
	case 3:
		t := &tor.Torrent{Name: vString("name", 3), Hash: h}
		t.Pieces.MetadataComplete(16384, 16384)
		vDead = vBool("dead")
		torrentEntry(context.Background(), w, t, nil)
	case 5:
		// a connected peer's row: the client version comes from the extended handshake (known-peer
		// record) or is derived from the peer id
		t := &tor.Torrent{Hash: h}
		t.Pieces.MetadataComplete(16384, 16384)
		id := vBytes("id", 20)
		vAssume(len(id) == 20)
		vKnownVersion = vString("version", 3)
		vHasKnown = vBool("known")
		hpeer(w, &peer.Peer{Id: id[:20]}, t)
	case 4:
		// the peers page of a torrent whose name, tracker URL, tracker error text and web-seed URL
		// are attacker-controlled
		t := &tor.Torrent{Name: vString("name", 3), Hash: h}
		t.Pieces.MetadataComplete(16384, 16384)
		t.VSetSources([][]tracker.Tracker{{&vTrk{url: vString("turl", 3), err: vErr{vString("terr", 3)}}}}, []webseed.Webseed{&vWs{url: vString("wurl", 3)}})
		peers(w, &http.Request{Method: "GET", Host: "localhost:8088"}, t)
	}
	vReach("rendered")
	vAssert(!vOutUnsafe(), "ghost: no attacker-controlled string reaches an HTML page unescaped")
}

// H_C19_playlist: playlist entries: no attacker-controlled piece of a line may contain CR or LF.
func H_C19_playlist() {
	vUnsafeClass(1)
	w := &vRW{}
	m3uentry(w, "localhost:8088", hash.Hash(make([]byte, 20)), path.Path{vString("c0", 3), vString("c1", 3)})
	vReach("rendered")
	vAssert(!vOutUnsafe(), "ghost: no attacker-controlled string can add a line to a playlist")
}

var vDead bool

// consistent models of the torrent API behind the pages: the torrent is alive or dead for all
func vGetStats(t *tor.Torrent) (*peer.TorStats, error) {
	if vDead {
		return nil, tor.ErrTorrentDead
	}
	return &peer.TorStats{NumPeers: 1}, nil
}
func vGetConf(t *tor.Torrent) (peer.TorConf, error) {
	if vDead {
		return peer.TorConf{}, tor.ErrTorrentDead
	}
	return peer.TorConf{}, nil
}
func vGetAvailable(t *tor.Torrent) (tor.Available, error) {
	if vDead {
		return nil, tor.ErrTorrentDead
	}
	return nil, nil
}

type vTrk struct {
	url string
	err error
}

func (t *vTrk) URL() string                      { return t.url }
func (t *vTrk) GetState() (tracker.State, error) { return tracker.Error, t.err }
func (t *vTrk) Announce(ctx context.Context, hash []byte, myid []byte, want int, size int64, port4, port6 int, proxy string, f func(netip.AddrPort) bool) error {
	return nil
}

type vWs struct{ url string }

func (w *vWs) URL() string          { return w.url }
func (w *vWs) Ready(idle bool) bool { return true }
func (w *vWs) Rate() float64        { return 0 }
func (w *vWs) Count() int           { return 0 }

func vGetPeers(t *tor.Torrent) ([]*peer.Peer, error)   { return nil, nil }
func vGetKnowns(t *tor.Torrent) ([]known.Peer, error) { return nil, nil }

var vKnownVersion string
var vHasKnown bool

// model of netip.AddrPort.String / netip.Addr.String: the text of an address learnt from a tracker
// (original, non-compact peer format: netip.ParseAddr of a string in the reply) may carry an IPv6
// zone, which the library neither restricts nor escapes: any bytes after '%'.
var vZoned bool
var vZone string

func vAddrPortString(a netip.AddrPort) string {
	if vZoned {
		return "[fe80::1%" + vZone + "]:6881"
	}
	return "10.0.0.1:6881"
}
func vAddrString(a netip.Addr) string {
	if vZoned {
		return "fe80::1%" + vZone
	}
	return "10.0.0.1"
}

func vGetKnown(t *tor.Torrent, id hash.Hash, addr netip.AddrPort) (*known.Peer, error) {
	if !vHasKnown {
		return nil, nil
	}
	return &known.Peer{Addr: netip.AddrPortFrom(netip.AddrFrom4([4]byte{10, 0, 0, 1}), 1), Version: vKnownVersion}, nil
}
func vPeerStats(p *peer.Peer) *peer.PeerStats {
	if vBool("peer-dead") {
		return nil
	}
	return &peer.PeerStats{Unchoked: vBool("s1"), AmInterested: vBool("s2"), AmUnchoking: vBool("s3"), Interested: vBool("s4"), Seed: vBool("s5"), UploadOnly: vBool("s6"), HasProxy: vBool("s7"),
		Rlen: vInt("rlen"), Qlen: vInt("qlen"), NumPex: vInt("npex")}
}
