//go:build verif

package fuse

import (
	"context"

	"bazil.org/fuse"

	"github.com/jech/storrent/hash"
	"github.com/jech/storrent/tor"
)

func vNoWaitF(r *tor.Reader, pos int64, limit int64) (<-chan struct{}, error) { return nil, nil }

// H_C02_fuse_concurrent: two FUSE read requests in flight on the SAME open handle (kernel
// read-ahead does this), at arbitrary offsets, every schedule with <= `preempt` pre-emptions:
// each reply holds exactly the bytes at its own offset.
func H_C02_fuse_concurrent() {
	d := vBytes("d", 16384)
	vAssume(len(d) == 16384)
	h := hash.Hash(vBytes("h", 20))
	vAssume(len(h) == 20)
	t := tor.VRegister(hash.Hash(make([]byte, 20)), "t", nil, 16384)
	t.Pieces.AddData(0, 0, d, 1)
	done, _, _ := t.Pieces.Finalise(0, h)
	vAssume(done)
	hd := &handle{reader: t.NewReader(context.Background(), 0, 16384), sema: make(chan struct{}, 1)}
	oa, ob := int64(vU16("oa")%16000), int64(vU16("ob")%16000)
	ra := &fuse.ReadRequest{Offset: oa, Size: 64}
	rb := &fuse.ReadRequest{Offset: ob, Size: 64}
	pa := &fuse.ReadResponse{Data: make([]byte, 0, 64)}
	pb := &fuse.ReadResponse{Data: make([]byte, 0, 64)}
	var ea, eb error
	go func() { ea = hd.Read(context.Background(), ra, pa) }()
	go func() { eb = hd.Read(context.Background(), rb, pb) }()
	vJoin()
	vReach("both-served")
	if ea == nil {
		vAssert(len(pa.Data) == 64, "a read inside the file returns the requested amount")
		j := vInt("j")
		if j >= 0 && j < len(pa.Data) {
			vAssert(pa.Data[j] == d[int(oa)+j], "request A is answered with the bytes at its own offset")
		}
	}
	if eb == nil {
		k := vInt("k")
		if k >= 0 && k < len(pb.Data) {
			vAssert(pb.Data[k] == d[int(ob)+k], "request B is answered with the bytes at its own offset")
		}
	}
}
