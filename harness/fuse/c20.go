//go:build verif

package fuse

import (
	"context"

	"github.com/jech/storrent/hash"
	"github.com/jech/storrent/path"
	"github.com/jech/storrent/tor"
)

var vAlpha = []string{"a", "b"}
var vPN = [][]string{{"f0.d", "f0.c0", "f0.c1", "f0.c2"}, {"f1.d", "f1.c0", "f1.c1", "f1.c2"}, {"f2.d", "f2.c0", "f2.c1", "f2.c2"}}

func vConcPath(names []string, maxDepth int) path.Path {
	n := vChoose(names[0], 1, maxDepth)
	var p path.Path
	for i := 0; i < n; i++ {
		p = append(p, vAlpha[vChoose(names[1+i], 0, 1)])
	}
	return p
}

// H_C20_fuse_tree: the FUSE directory tree for <= 3 files with paths of 1..depth components over
// a 2-letter alphabet (every nesting / duplicate-prefix pattern), arbitrary padding flags and
// lengths; a directory at depth 0..depth-1: ReadDirAll names exactly the distinct first
// components below the directory of NON-padding files, each once, directories marked as such;
// Lookup(name) succeeds iff some file lies at or below dir/name and yields a directory or a
// file node accordingly; a file node resolves (findFile) to that file's offset and length.
func H_C20_fuse_tree() {
	nf := vParam("files")
	depth := vParam("depth")
	var files []tor.Torfile
	var total int64
	for i := 0; i < nf; i++ {
		l := int64(vU16([]string{"l0", "l1", "l2"}[i]))
		files = append(files, tor.Torfile{Path: vConcPath(vPN[i], depth), Offset: total, Length: l, Padding: vChoose([]string{"pad0", "pad1", "pad2"}[i], 0, 1) == 1})
		total += l
	}
	h := hash.Hash(make([]byte, 20))
	t := tor.VRegister(h, "t", files, total+1)
	var hh [20]byte
	var dpath path.Path
	for i, n := 0, vParam("dirdepth"); i < n; i++ {
		dpath = append(dpath, vAlpha[vChoose([]string{"d0", "d1"}[i], 0, 1)])
	}
	dir := directory{hh, dpath.String()}
	ents, err := dir.ReadDirAll(context.Background())
	vAssert(err == nil, "listing a directory of a known torrent succeeds")
	// reference listing
	for _, name := range []string{"a", "b"} {
		below, deeper := false, false
		for _, f := range t.Files {
			if !f.Padding && f.Path.Within(dpath) && f.Path[len(dpath)] == name {
				if len(f.Path) > len(dpath)+1 {
					deeper = true
				} else {
					below = true
				}
			}
		}
		nfile, ndir := 0, 0
		for _, e := range ents {
			if e.Name == name {
				if e.Type == 4 { // DT_Dir
					ndir++
				} else {
					nfile++
				}
			}
		}
		if deeper {
			vReach("subdir")
			vAssert(ndir == 1, "a subdirectory holding a non-padding file is listed exactly once")
		} else {
			vAssert(ndir == 0, "no directory entry without a non-padding file below it")
		}
		if !below {
			vAssert(nfile == 0, "no file entry for a name that is not a (non-padding) file here")
		} else {
			vReach("file-entry")
			vAssert(nfile >= 1, "every non-padding file of the directory is listed")
		}
	}
	// lookup
	name := []string{"a", "b", "c"}[vParam("look")]
	node, lerr := dir.Lookup(context.Background(), name)
	first := -1
	for i := len(t.Files) - 1; i >= 0; i-- {
		f := t.Files[i]
		if f.Path.Within(dpath) && f.Path[len(dpath)] == name {
			first = i
		}
	}
	if first < 0 {
		vReach("lookup-miss")
		vAssert(lerr != nil, "looking up an absent name fails cleanly")
		return
	}
	vReach("lookup-hit")
	vAssert(lerr == nil && node != nil, "a name below which a file lies resolves")
	full := append(append(path.Path(nil), dpath...), name)
	switch n := node.(type) {
	case directory:
		vAssert(len(t.Files[first].Path) > len(full), "a directory node only where files lie deeper")
		vAssert(n.name == full.String(), "the node carries the full path")
	case file:
		vAssert(len(t.Files[first].Path) == len(full), "a file node only for a file")
		ff := findFile(t, path.Parse(n.name))
		vAssert(ff != nil, "the file node resolves to a file of the torrent")
		if ff != nil {
			k := -1
			for i := len(t.Files) - 1; i >= 0; i-- {
				if t.Files[i].Path.Equal(full) {
					k = i
				}
			}
			vAssert(k >= 0 && ff.Offset == t.Files[k].Offset && ff.Length == t.Files[k].Length, "the file node resolves to that file's offset and length")
		}
	default:
		vAssert(false, "Lookup yields a directory or a file")
	}
}
