//go:build verif

package protocol

import (
	"bufio"
	"bytes"
)

// H_C04_Read_frame: protocol.Read over a stream whose bytes and length are symbolic.
// Announced length, id and sub-id are whatever the stream says (all 2^32 / 256 / 256).
func H_C04_Read_frame() {
	stream := vBytes("s", 2*1024*1024+16)
	r := bufio.NewReader(bytes.NewReader(stream))
	vAllocMark()
	m, err := Read(r, nil)
	vAssert(!(m == nil && err == nil), "never 'no message and no error'")
	if len(stream) < 4 {
		vReach("short-prefix")
		vAssert(err != nil, "a truncated length prefix is an error")
		return
	}
	length := uint32(stream[0])<<24 | uint32(stream[1])<<16 | uint32(stream[2])<<8 | uint32(stream[3])
	frame := 4 + int(length)
	vAssert(vStreamPos() <= frame, "ghost: never reads beyond the frame")
	if length > 1024*1024 {
		vReach("too-long")
		vAssert(err != nil, "frames above 1 MiB are refused")
		vAssert(vMaxAlloc() == 0, "ghost: refused before any allocation")
		return
	}
	vAssert(vMaxAlloc() <= int(length)+16, "ghost: allocation at most frame length + 16")
	if err != nil {
		vReach("err")
		return
	}
	vReach("msg")
	vAssert(m != nil, "success yields a message")
	vAssert(vStreamPos() == frame, "ghost: consumes exactly 4 + announced length")
	vAssert(len(stream) >= frame, "a message is returned only if the whole frame was present")
	be32 := func(o int) uint32 {
		return uint32(stream[o])<<24 | uint32(stream[o+1])<<16 | uint32(stream[o+2])<<8 | uint32(stream[o+3])
	}
	switch mm := m.(type) {
	case KeepAlive:
		vReach("keepalive")
		vAssert(length == 0, "keepalive is the empty frame")
	case Choke:
		vReach("choke")
		vAssert(length == 1 && stream[4] == 0, "choke")
	case Unchoke:
		vAssert(length == 1 && stream[4] == 1, "unchoke")
	case Interested:
		vAssert(length == 1 && stream[4] == 2, "interested")
	case NotInterested:
		vAssert(length == 1 && stream[4] == 3, "not interested")
	case Have:
		vReach("have")
		vAssert(length == 5 && stream[4] == 4 && mm.Index == be32(5), "have decodes its index")
	case Bitfield:
		vReach("bitfield")
		vAssert(stream[4] == 5 && len(mm.Bitfield) == int(length)-1, "bitfield length")
		j := vInt("j")
		if j >= 0 && j < len(mm.Bitfield) {
			vReach("bitfield-byte")
			vAssert(mm.Bitfield[j] == stream[5+j], "bitfield bytes")
		}
	case Request:
		vReach("request")
		vAssert(length == 13 && stream[4] == 6 && mm.Index == be32(5) && mm.Begin == be32(9) && mm.Length == be32(13), "request fields")
	case Cancel:
		vAssert(length == 13 && stream[4] == 8 && mm.Index == be32(5) && mm.Begin == be32(9) && mm.Length == be32(13), "cancel fields")
	case RejectRequest:
		vAssert(length == 13 && stream[4] == 16 && mm.Index == be32(5) && mm.Begin == be32(9) && mm.Length == be32(13), "reject fields")
	case Piece:
		vReach("piece")
		vAssert(stream[4] == 7 && mm.Index == be32(5) && mm.Begin == be32(9), "piece header")
		vAssert(len(mm.Data) == int(length)-9, "piece payload length")
		j := vInt("j")
		if j >= 0 && j < len(mm.Data) {
			vReach("piece-byte")
			vAssert(mm.Data[j] == stream[13+j], "piece payload bytes")
		}
	case Port:
		vReach("port")
		vAssert(length == 3 && stream[4] == 9 && mm.Port == uint16(stream[5])<<8|uint16(stream[6]), "port")
	case SuggestPiece:
		vAssert(length == 5 && stream[4] == 13 && mm.Index == be32(5), "suggest")
	case AllowedFast:
		vAssert(length == 5 && stream[4] == 17 && mm.Index == be32(5), "allowed fast")
	case HaveAll:
		vReach("haveall")
		vAssert(length == 1 && stream[4] == 14, "have all")
	case HaveNone:
		vAssert(length == 1 && stream[4] == 15, "have none")
	case Extended0:
		vReach("ext0")
		vAssert(length >= 2 && stream[4] == 20 && stream[5] == 0, "extended handshake")
	case ExtendedPex:
		vReach("extpex")
		vAssert(length >= 2 && stream[4] == 20 && stream[5] == ExtPex, "extended pex")
	case ExtendedMetadata:
		vReach("extmeta")
		vAssert(length >= 2 && stream[4] == 20 && stream[5] == ExtMetadata, "extended metadata")
		vAssert(len(mm.Data) <= int(length)-2, "metadata payload inside the frame")
	case ExtendedDontHave:
		vReach("donthave")
		vAssert(length == 6 && stream[4] == 20 && stream[5] == ExtDontHave && mm.Index == be32(6), "dont have")
	case ExtendedUploadOnly:
		vAssert(length == 3 && stream[4] == 20 && stream[5] == ExtUploadOnly && mm.Value == (stream[6] == 1), "upload only")
	case ExtendedUnknown:
		vReach("extunknown")
		vAssert(length >= 2 && stream[4] == 20 && mm.Subtype == stream[5], "extended unknown")
	case Unknown:
		vReach("unknown")
		vAssert(mm.tpe == stream[4], "unknown type")
	default:
		vAssert(false, "unexpected message type")
	}
}
