//go:build verif

package protocol

import (
	"bufio"
	"bytes"
	"net/netip"

	"github.com/jech/storrent/pex"
)

// vMsg builds message number `kind` (the types Write accepts) with symbolic fields.
func vMsg(kind int) Message {
	switch kind {
	case 0:
		return KeepAlive{}
	case 1:
		return Choke{}
	case 2:
		return Unchoke{}
	case 3:
		return Interested{}
	case 4:
		return NotInterested{}
	case 5:
		return Have{vU32("i")}
	case 6:
		return Bitfield{vBytes("bf", 16384+1)}
	case 7:
		return Request{vU32("i"), vU32("b"), vU32("l")}
	case 8:
		return Piece{vU32("i"), vU32("b"), vBytes("data", 16384+1)}
	case 9:
		return Cancel{vU32("i"), vU32("b"), vU32("l")}
	case 10:
		return Port{vU16("p")}
	case 11:
		return SuggestPiece{vU32("i")}
	case 12:
		return HaveAll{}
	case 13:
		return HaveNone{}
	case 14:
		return RejectRequest{vU32("i"), vU32("b"), vU32("l")}
	case 15:
		return AllowedFast{vU32("i")}
	case 16:
		return ExtendedDontHave{Subtype: ExtDontHave, Index: vU32("i")}
	case 17:
		return ExtendedMetadata{Subtype: ExtMetadata, Type: vU8("t"), Piece: vU32("i"), TotalSize: vU32("ts"), Data: vBytes("data", 16384+1)}
	case 18:
		return Extended0{Version: vString("ver", 3), Port: vU16("p"), ReqQ: vU32("q"), MetadataSize: vU32("ms"), UploadOnly: vBool("uo"), Encrypt: vBool("e")}
	case 19:
		return ExtendedPex{Subtype: ExtPex}
	}
	return nil
}

func vNZ(name string) uint8 {
	v := vU8(name)
	vAssume(v != 0)
	return v
}

func vBE32(v uint32) []byte { return []byte{byte(v >> 24), byte(v >> 16), byte(v >> 8), byte(v)} }

// vRef: an independent encoder for the fixed-format messages, written from BEP 3 / 5 / 6 / 10
// and lt_donthave: <length prefix><id><payload>, all integers big-endian.
func vRef(m Message) ([]byte, bool) {
	frame := func(id byte, payload ...[]byte) []byte {
		n := 1
		for _, p := range payload {
			n += len(p)
		}
		out := append(vBE32(uint32(n)), id)
		for _, p := range payload {
			out = append(out, p...)
		}
		return out
	}
	switch m := m.(type) {
	case KeepAlive:
		return []byte{0, 0, 0, 0}, true
	case Choke:
		return frame(0), true
	case Unchoke:
		return frame(1), true
	case Interested:
		return frame(2), true
	case NotInterested:
		return frame(3), true
	case Have:
		return frame(4, vBE32(m.Index)), true
	case Bitfield:
		return frame(5, m.Bitfield), true
	case Request:
		return frame(6, vBE32(m.Index), vBE32(m.Begin), vBE32(m.Length)), true
	case Piece:
		return frame(7, vBE32(m.Index), vBE32(m.Begin), m.Data), true
	case Cancel:
		return frame(8, vBE32(m.Index), vBE32(m.Begin), vBE32(m.Length)), true
	case Port:
		return frame(9, []byte{byte(m.Port >> 8), byte(m.Port)}), true
	case SuggestPiece:
		return frame(13, vBE32(m.Index)), true
	case HaveAll:
		return frame(14), true
	case HaveNone:
		return frame(15), true
	case RejectRequest:
		return frame(16, vBE32(m.Index), vBE32(m.Begin), vBE32(m.Length)), true
	case AllowedFast:
		return frame(17, vBE32(m.Index)), true
	case ExtendedDontHave:
		return frame(20, []byte{m.Subtype}, vBE32(m.Index)), true
	}
	return nil, false
}

func vSameMsg(a, b Message) bool {
	switch x := a.(type) {
	case Bitfield:
		y, ok := b.(Bitfield)
		return ok && bytes.Equal(x.Bitfield, y.Bitfield)
	case Piece:
		y, ok := b.(Piece)
		return ok && x.Index == y.Index && x.Begin == y.Begin && bytes.Equal(x.Data, y.Data)
	case ExtendedMetadata:
		y, ok := b.(ExtendedMetadata)
		return ok && x.Subtype == y.Subtype && x.Type == y.Type && x.Piece == y.Piece && x.TotalSize == y.TotalSize && bytes.Equal(x.Data, y.Data)
	case Extended0:
		y, ok := b.(Extended0)
		return ok && x.Version == y.Version && x.Port == y.Port && x.ReqQ == y.ReqQ && x.MetadataSize == y.MetadataSize && x.UploadOnly == y.UploadOnly && x.Encrypt == y.Encrypt
	case ExtendedPex:
		y, ok := b.(ExtendedPex)
		return ok && x.Subtype == y.Subtype && len(y.Added) == 0 && len(y.Dropped) == 0
	case ExtendedDontHave:
		y, ok := b.(ExtendedDontHave)
		return ok && y.Subtype == ExtDontHave && x.Index == y.Index
	}
	return a == b
}

// H_C06_codec: for message kind `msg` with symbolic fields (payloads 0..16385 bytes):
// (a) the bytes Write produces equal the reference encoder's, byte for byte;
// (b) Read on those bytes returns the same message and consumes all of them;
// (c) followed by a second message (a Have) the pair decodes in order - framing does not leak.
func H_C06_codec() {
	m := vMsg(vParam("msg"))
	var keep Message = m
	if p, ok := m.(Piece); ok {
		// Write releases the payload buffer of a Piece: compare against a copy
		keep = Piece{p.Index, p.Begin, append([]byte(nil), p.Data...)}
	}
	var out bytes.Buffer
	w := bufio.NewWriter(&out)
	err := Write(w, m, nil)
	vAssert(err == nil, "writing to a healthy writer succeeds")
	first := len(vFlushed(w, &out))
	m2 := Have{vU32("i2")}
	err = Write(w, m2, nil)
	vAssert(err == nil, "writing the second message succeeds")
	b := vFlushed(w, &out)
	if ref, ok := vRef(keep); ok {
		vReach("ref")
		vAssert(first == len(ref), "frame has the reference length")
		j := vInt("j")
		if j >= 0 && j < first && j < len(ref) {
			vAssert(b[j] == ref[j], "frame equals the reference encoding byte for byte")
		}
	} else {
		vReach("bencoded")
		vAssert(first >= 6 && b[4] == 20, "extended message: id 20")
		length := uint32(b[0])<<24 | uint32(b[1])<<16 | uint32(b[2])<<8 | uint32(b[3])
		vAssert(int(length) == first-4, "length prefix covers the frame")
	}
	r := bufio.NewReader(bytes.NewReader(b))
	g, err := Read(r, nil)
	vAssert(err == nil && g != nil, "what storrent writes, storrent reads")
	if err != nil {
		return
	}
	vReach("read-back")
	vAssert(vSameMsg(keep, g), "decodes to the message that was written")
	vAssert(vStreamPos() == first, "the first frame is consumed exactly")
	g2, err := Read(r, nil)
	vAssert(err == nil && g2 == Message(m2), "the following message decodes unharmed")
	vAssert(vStreamPos() == len(b), "both frames consumed, nothing left")
}

func vFlushed(w *bufio.Writer, out *bytes.Buffer) []byte {
	w.Flush()
	return out.Bytes()
}

// H_C06_pex_compact: FormatCompact / ParseCompact are mutually inverse for <= 3 peers of mixed
// families with arbitrary flags, and the compact form is 6 / 18 bytes per peer, big-endian
// port, one flag byte per peer in order.
func H_C06_pex_compact() {
	n := vParam("n")
	var peers []pex.Peer
	names := [][]string{{"a0", "p0", "f0", "v0"}, {"a1", "p1", "f1", "v1"}, {"a2", "p2", "f2", "v2"}}
	n4, n6 := 0, 0
	for k := 0; k < n; k++ {
		var a netip.Addr
		if vBool(names[k][3]) {
			var b [16]byte
			b[0] = 0x20
			b[15] = vU8(names[k][0])
			a = netip.AddrFrom16(b)
			n6++
		} else {
			a = netip.AddrFrom4([4]byte{10, 0, 0, vU8(names[k][0])})
			n4++
		}
		peers = append(peers, pex.Peer{Addr: netip.AddrPortFrom(a, vU16(names[k][1])), Flags: vU8(names[k][2])})
	}
	a4, f4, a6, f6 := pex.FormatCompact(peers)
	vReach("formatted")
	vAssert(len(a4) == 6*n4 && len(f4) == n4, "IPv4: 6 bytes and one flag byte per peer")
	vAssert(len(a6) == 18*n6 && len(f6) == n6, "IPv6: 18 bytes and one flag byte per peer")
	back := append(pex.ParseCompact(a4, f4, false), pex.ParseCompact(a6, f6, true)...)
	vAssert(len(back) == n, "every peer comes back")
	// order within a family is preserved: compare family by family
	i4, i6 := 0, n4
	for k := 0; k < n; k++ {
		var q pex.Peer
		if peers[k].Addr.Addr().Is4() {
			q = back[i4]
			vAssert(a4[6*i4+4] == byte(peers[k].Addr.Port()>>8) && a4[6*i4+5] == byte(peers[k].Addr.Port()), "port is big-endian after the address")
			i4++
		} else {
			q = back[i6]
			i6++
		}
		vAssert(q.Addr == peers[k].Addr && q.Flags == peers[k].Flags, "address, port and flags survive the round trip")
	}
}
