//go:build verif

package protocol

import (
	"io"
	"net"
	"time"

	"github.com/jech/storrent/crypto"
	"github.com/jech/storrent/hash"
)

// vScriptConn: a connection delivering a symbolic inbound stream under a segmentation chosen by
// parameter seg: 0 = the first two reads return a SOLVER-CHOSEN number of bytes (every placement
// of up to two cut points), later reads everything available; 1 = one byte at a time; 2 =
// everything coalesced. xor != 0 models a wrapping (decrypting) connection.
type vScriptConn struct {
	in    []byte
	pos   int
	out   []byte
	reads int
	seg   int
}

func (c *vScriptConn) Read(b []byte) (int, error) {
	avail := len(c.in) - c.pos
	if avail == 0 || len(b) == 0 {
		return 0, io.EOF
	}
	var k int
	switch {
	case c.seg == 1:
		k = 1
	case c.seg == 0 && c.reads < 2:
		k = vFreshInt("k")
		vAssume(k >= 1 && k <= len(b) && k <= avail)
	default:
		k = len(b)
		if avail < k {
			k = avail
		}
	}
	c.reads++
	copy(b[:k], c.in[c.pos:c.pos+k])
	c.pos += k
	return k, nil
}
func (c *vScriptConn) Write(b []byte) (int, error)        { c.out = append(c.out, b...); return len(b), nil }
func (c *vScriptConn) Close() error                       { return nil }
func (c *vScriptConn) LocalAddr() net.Addr                { return nil }
func (c *vScriptConn) RemoteAddr() net.Addr               { return nil }
func (c *vScriptConn) SetDeadline(t time.Time) error      { return nil }
func (c *vScriptConn) SetReadDeadline(t time.Time) error  { return nil }
func (c *vScriptConn) SetWriteDeadline(t time.Time) error { return nil }

// H_C07_plain_client: the plain client handshake over an arbitrary inbound stream (<= 68+16
// bytes) under the segmentation of parameter seg: outcome, info-hash, peer id and capability
// bits are functions of stream bytes 0..67 only; exactly 68 bytes are consumed and every byte
// glued behind them is handed on exactly once, in order; what is sent is the 68-byte handshake.
func H_C07_plain_client() {
	in := vBytes("in", 68+16)
	c := &vScriptConn{in: in, seg: vParam("seg")}
	ih := hash.Hash(vBytes("ih", 20))
	vAssume(len(ih) == 20)
	me := hash.Hash(vBytes("me", 20))
	vAssume(len(me) == 20)
	_, res, init, err := ClientHandshake(c, false, ih, me, &crypto.Options{})
	// the outcome as a function of the stream alone
	good := len(in) >= 68
	if good {
		for i := 0; i < 20; i++ {
			good = vAnd(good, in[i] == header[i])
		}
		for i := 0; i < 20; i++ {
			good = vAnd(good, in[28+i] == ih[i])
		}
	}
	vAssert((err == nil) == good, "success iff the stream starts with a handshake for our info-hash - whatever the segmentation")
	if err != nil {
		vReach("fail")
		return
	}
	vReach("ok")
	j := vInt("j")
	if j >= 0 && j < 20 {
		vAssert(res.Hash[j] == in[28+j] && res.Id[j] == in[48+j], "info-hash and peer id are stream bytes 28..67")
	}
	vAssert(res.Dht == (in[27]&1 != 0) && res.Fast == (in[27]&4 != 0) && res.Extended == (in[25]&0x10 != 0), "capability bits")
	vAssert(c.pos-len(init) == 68, "exactly the handshake is consumed; the surplus is handed on")
	k := vInt("k2")
	if k >= 0 && k < len(init) {
		vAssert(init[k] == in[68+k], "glued bytes are delivered once and in order")
	}
	vAssert(len(c.out) == 68 && c.out[0] == 19 && c.out[25] == 0x10 && c.out[27] == 5, "the 68-byte handshake is sent with our capability bits")
	m := vInt("m")
	if m >= 0 && m < 20 {
		vAssert(c.out[28+m] == ih[m] && c.out[48+m] == me[m], "we send our info-hash and id")
	}
}

// H_C07_plain_server: the plain server handshake (two torrents known), same segmentations.
func H_C07_plain_server() {
	in := vBytes("in", 68+16)
	c := &vScriptConn{in: in, seg: vParam("seg")}
	h0, h1 := hash.Hash(vBytes("h0", 20)), hash.Hash(vBytes("h1", 20))
	vAssume(len(h0) == 20 && len(h1) == 20)
	id0, id1 := hash.Hash(vBytes("id0", 20)), hash.Hash(vBytes("id1", 20))
	vAssume(len(id0) == 20 && len(id1) == 20)
	hashes := []hash.HashPair{{First: h0, Second: id0}, {First: h1, Second: id1}}
	_, res, init, err := ServerHandshake(c, hashes, &crypto.Options{})
	if err != nil {
		vReach("fail")
		return
	}
	vReach("ok")
	vAssert(len(in) >= 68, "success needs a whole handshake")
	is0, is1 := true, true
	for i := 0; i < 20; i++ {
		vAssert(in[i] == header[i], "only the BitTorrent header is accepted")
		is0 = vAnd(is0, in[28+i] == h0[i])
		is1 = vAnd(is1, in[28+i] == h1[i])
	}
	vAssert(vOr(is0, is1), "only a torrent we have is accepted")
	j := vInt("j")
	if j >= 0 && j < 20 {
		vAssert(res.Hash[j] == in[28+j] && res.Id[j] == in[48+j], "info-hash and peer id are stream bytes 28..67")
		vAssert(c.out[28+j] == in[28+j], "we answer with the same info-hash")
		vAssert(vImp(is0, c.out[48+j] == id0[j]) && vImp(vAnd(!is0, is1), c.out[48+j] == id1[j]), "we answer with the id we use for that torrent")
	}
	vAssert(res.Dht == (in[27]&1 != 0) && res.Fast == (in[27]&4 != 0) && res.Extended == (in[25]&0x10 != 0), "capability bits")
	vAssert(c.pos-len(init) == 68 && len(c.out) == 68, "exactly the handshake is consumed and one handshake is sent")
	k := vInt("k2")
	if k >= 0 && k < len(init) {
		vAssert(init[k] == in[68+k], "glued bytes are delivered once and in order")
	}
}

// vXorConn: a connection that wraps another and transforms what it reads (stands for the
// decrypting connection the MSE handshake returns).
type vXorConn struct {
	*vScriptConn
}

func (c *vXorConn) Read(b []byte) (int, error) {
	n, err := c.vScriptConn.Read(b)
	for i := 0; i < n; i++ {
		b[i] ^= 0xFF
	}
	return n, err
}

var vMSEia int

// H_C07_server_over_mse: protocol.ServerHandshake on top of an encrypted connection (the MSE
// layer is the model above): whatever part of the BitTorrent handshake arrives as initial
// payload (parameter ia = 0, 20, 48, 60, 68 bytes) and however the rest is segmented, the
// info-hash, peer id and early data are the DECRYPTED stream bytes.
func H_C07_server_over_mse() {
	in := vBytes("in", 1+68+8)
	vAssume(len(in) >= 1)
	c := &vScriptConn{in: in, seg: vParam("seg")}
	vMSEia = vParam("ia")
	vAssume(in[0] != 19) // not a plain handshake: the MSE path is taken
	h0 := hash.Hash(vBytes("h0", 20))
	vAssume(len(h0) == 20)
	id0 := hash.Hash(vBytes("id0", 20))
	vAssume(len(id0) == 20)
	// the server's first read takes whatever has arrived; for the model everything up to and
	// including byte 0 is the MSE exchange, the BitTorrent handshake follows at in[1:]
	c.in = in[:1]
	c2 := &vScriptConn{in: in[1:], seg: vParam("seg")}
	_ = c
	vMSEconn = c2
	_, res, init, err := ServerHandshake(&vFirst{c2, in[0]}, []hash.HashPair{{First: h0, Second: id0}}, &crypto.Options{AllowCryptoHandshake: true})
	if err != nil {
		vReach("fail")
		return
	}
	vReach("ok")
	pl := in[1:]
	vAssert(len(pl) >= 68, "success needs the whole encrypted handshake")
	j := vInt("j")
	if j >= 0 && j < 20 {
		vAssert(res.Hash[j] == pl[28+j]^0xFF, "the info-hash is the decrypted stream")
		vAssert(res.Id[j] == pl[48+j]^0xFF, "the peer id is the decrypted stream - also when it arrives after the initial payload")
	}
	k := vInt("k2")
	if k >= 0 && k < len(init) {
		vReach("has-init")
		vAssert(init[k] == pl[68+k]^0xFF, "early data is decrypted and delivered once, in order")
	}
}

var vMSEconn *vScriptConn

// vFirst delivers one leading byte (the start of the MSE exchange) and then hands over to the
// model: protocol.ServerHandshake's first read sees a non-BitTorrent header.
type vFirst struct {
	*vScriptConn
	b byte
}

func (f *vFirst) Read(b []byte) (int, error) {
	if len(b) == 0 {
		return 0, nil
	}
	b[0] = f.b
	return 1, nil
}

func vMSEServer2(c net.Conn, head []byte, skeys [][]byte, options *crypto.Options) (net.Conn, []byte, []byte, error) {
	sc := vMSEconn
	ia := make([]byte, vMSEia)
	vAssume(len(sc.in) >= vMSEia)
	for i := 0; i < vMSEia; i++ {
		ia[i] = sc.in[i] ^ 0xFF
	}
	sc.pos = vMSEia
	return &vXorConn{sc}, skeys[0], ia, nil
}
