//go:build verif

package peer

import (
	"github.com/jech/storrent/bitmap"
	"github.com/jech/storrent/protocol"
	"github.com/jech/storrent/tor/piece"
)

// Accessors used by harnesses of package tor (injected by overlay only, never committed).

func VNewPeer(pcs *piece.Pieces, tev chan TorEvent) *Peer {
	p := &Peer{Pieces: pcs, Info: []byte{1}, torEvent: tev, torDone: make(chan struct{}), Counter: 5,
		writer: make(chan protocol.Message, 64), writerDone: make(chan struct{}), reqQ: 128,
		Event: make(chan PeerEvent, 4), Done: make(chan struct{})}
	return p
}
func VHandleMessage(p *Peer, m protocol.Message) error { return handleMessage(p, m) }
func VHandleEvent(p *Peer, e PeerEvent) error          { return handleEvent(p, e) }
func VEnqueue(p *Peer, chunk uint32) bool              { return p.requests.Enqueue(chunk) }
func VMakeOutstanding(p *Peer, chunk uint32) bool {
	if !p.requests.Enqueue(chunk) {
		return false
	}
	q, _ := p.requests.Dequeue()
	p.requests.EnqueueRequest(q)
	return true
}
func VPending(p *Peer) int                    { return p.requests.Requested() + p.requests.Queue() }
func VOutstanding(p *Peer) int                { return p.requests.Requested() }
func VWriter(p *Peer) chan protocol.Message   { return p.writer }
func VSetHave(p *Peer, i int)                 { p.bitmap.Set(i) }
func VSetUnchoked(p *Peer, v uint32)          { p.unchoked = v }
func VSetFast(p *Peer, v bool)                { p.canFast = v }
func VBacklog(p *Peer) int                    { return len(p.events) }
func VExpire(p *Peer) bool                    { return expireRequests(p) }
func VFromChunk(p *Peer, c uint32) (uint32, uint32) { return fromChunk(p, c) }

func VCount(p *Peer, chunk uint32) int   { return p.requests.VCount(chunk) }
func VMember(p *Peer, chunk uint32) bool { return p.requests.VMember(chunk) }
func VRunExit(p *Peer, tev chan TorEvent) {
	done := make(chan struct{})
	close(done)
	p.conn = &vFakeConn{}
	Run(p, tev, done, p.Info, nil, nil)
}

func VGet(b []byte, i int) bool     { return bitmap.Bitmap(b).Get(i) }
func VHas(p *Peer, i int) bool      { return p.bitmap.Get(i) }
func VSetBitmap(p *Peer, b []byte) {
	if len(b) > 0 {
		p.bitmap = bitmap.Bitmap(b).Copy()
	}
}

func VSetInfo(p *Peer, info []byte)       { p.Info = info }
func VSetSeed(p *Peer, v bool)            { p.isSeed = v }
func VSetExt(p *Peer, pexE, metaE, dhE uint32) {
	p.pexExt, p.metadataExt, p.dontHaveExt = pexE, metaE, dhE
	p.canExtended = true
}
func VSetUploadState(p *Peer, interested, unchoking uint32, others int32) {
	p.interested, p.amUnchoking = interested, unchoking
	numUnchoking = others + int32(unchoking)
}
func VAddRequested(p *Peer, i, b, l uint32) { p.requested = append(p.requested, Requested{i, b, l}) }
func VFillWriter(p *Peer, n int)            { vFill(p, n) }
func VSetPort(p *Peer, port uint32)         { p.Port = port }

// VNewUploadPeer: a peer with the given interest / unchoke flags and an event queue that records
// the commands it is sent.
func VNewUploadPeer(interested, unchoking uint32, counter uint32) *Peer {
	return &Peer{interested: interested, amUnchoking: unchoking, Counter: counter, Event: make(chan PeerEvent, 8), Done: make(chan struct{})}
}
func VDrainUnchokes(p *Peer) (unchoke, choke int) {
	for len(p.Event) > 0 {
		if e, ok := (<-p.Event).(PeerUnchoke); ok {
			if e.Unchoke {
				unchoke++
			} else {
				choke++
			}
		}
	}
	return
}

// VRunLive: peer.Run on a fake connection with the torrent alive (its done channel open).
func VRunLive(p *Peer, tev chan TorEvent, torDone chan struct{}) {
	p.conn = &vFakeConn{}
	Run(p, tev, torDone, p.Info, nil, nil)
}
