//go:build verif

package requests

// VCount: number of entries for chunk i in the queue plus the requested list (ground truth,
// independent of the membership bitmap).
func (rs *Requests) VCount(i uint32) int {
	n := 0
	for _, r := range rs.queue {
		if r.index == i {
			n++
		}
	}
	for _, r := range rs.requested {
		if r.index == i {
			n++
		}
	}
	return n
}

// VMember: the membership bitmap's answer.
func (rs *Requests) VMember(i uint32) bool { return rs.bitmap.Get(int(i)) }
