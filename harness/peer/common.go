//go:build verif

package peer

import (
	"net"
	"time"

	"github.com/jech/storrent/protocol"
	"github.com/jech/storrent/tor/piece"
)

// vGeom: a torrent geometry with the piece size given by the case split (parameter ps)
// and a symbolic total length.
func vGeom(maxTotal int64) (*piece.Pieces, uint32, int64) {
	ps := uint32(vParam("ps"))
	total := vI64("total")
	vAssume(total >= 1 && total <= maxTotal)
	pcs := &piece.Pieces{}
	pcs.MetadataComplete(ps, total)
	return pcs, ps, total
}

// vMkPeer: a peer in the single-goroutine state of Run's main loop, metadata known.
func vMkPeer(pcs *piece.Pieces) (*Peer, chan TorEvent) {
	tev := make(chan TorEvent, 64)
	p := &Peer{Pieces: pcs, Info: []byte{1}, torEvent: tev, torDone: make(chan struct{}), Counter: 5,
		writer: make(chan protocol.Message, 64), writerDone: make(chan struct{}), reqQ: 128,
		Event: make(chan PeerEvent, 4), Done: make(chan struct{})}
	return p, tev
}

func vNumChunks(total int64) uint32 { return uint32((total + 16383) / 16384) }

type vFakeConn struct{ closed bool }

func (c *vFakeConn) Read(b []byte) (int, error)         { return 0, nil }
func (c *vFakeConn) Write(b []byte) (int, error)        { return len(b), nil }
func (c *vFakeConn) Close() error                       { c.closed = true; return nil }
func (c *vFakeConn) LocalAddr() net.Addr                { return nil }
func (c *vFakeConn) RemoteAddr() net.Addr               { return nil }
func (c *vFakeConn) SetDeadline(t time.Time) error      { return nil }
func (c *vFakeConn) SetReadDeadline(t time.Time) error  { return nil }
func (c *vFakeConn) SetWriteDeadline(t time.Time) error { return nil }
