//go:build verif

package peer

import (
	"net/netip"

	"github.com/jech/storrent/config"
	"github.com/jech/storrent/hash"
	"github.com/jech/storrent/protocol"
	"github.com/jech/storrent/tor/piece"
)

// vFill puts n keep-alives into the peer's write queue (0 = idle, 33 = congested, 64 = full).
func vFill(p *Peer, n int) {
	for i := 0; i < n; i++ {
		p.writer <- protocol.KeepAlive{}
	}
}

// vDrainWrites returns the messages written beyond the first `skip` (the filler).
func vDrainWrites(p *Peer, skip int) []protocol.Message {
	var out []protocol.Message
	k := 0
	for len(p.writer) > 0 {
		m := <-p.writer
		if k >= skip {
			out = append(out, m)
		}
		k++
	}
	return out
}

// H_C16_upload: one upload tick (scheduleUpload(immediate)) for a peer we are unchoking whose
// queue head is an ARBITRARY request (any index, offset, length). The store (symbolic length
// up to 2^40, piece size from the case split) holds exactly one complete, verified piece
// `index` (<= 2 blocks) with symbolic content d. Whatever is written is checked: a Piece only
// for the queue head, only with exactly the verified bytes of the requested range.
func H_C16_upload() {
	psz := uint32(vParam("ps"))
	total := vI64("total")
	vAssume(total >= 1 && total <= int64(1)<<40)
	pcs := &piece.Pieces{}
	pcs.MetadataComplete(psz, total)
	index := vU32("index")
	vAssume(int64(index) < (total+int64(psz)-1)/int64(psz))
	pl := pcs.PieceLength(index)
	vAssume(pl >= 1 && pl <= 2*16384)
	d := vBytes("d", 2*16384)
	vAssume(len(d) == int(pl))
	h := hash.Hash(vBytes("h", 20))
	vAssume(len(h) == 20)
	_, complete, _ := pcs.AddData(index, 0, d, 1)
	vAssume(complete)
	done, _, _ := pcs.Finalise(index, h)
	vAssume(done)
	p, _ := vMkPeer(pcs)
	p.canFast = vBool("fast")
	p.amUnchoking = 1
	numUnchoking = 1
	r := Requested{vU32("ri"), vU32("rb"), vU32("rl")}
	vAssume(r.Length <= 1<<20) // (an unbounded length is a C05 matter: buffer of attacker-chosen size)
	p.requested = []Requested{r}
	fill := vParam("fill")
	vFill(p, fill)
	err := scheduleUpload(p, true)
	vAssert(err == nil, "an upload tick does not kill the connection")
	ws := vDrainWrites(p, fill)
	vAssert(len(ws) <= 1, "at most one message per tick")
	for _, m := range ws {
		switch mm := m.(type) {
		case protocol.Piece:
			vReach("piece")
			vAssert(mm.Index == r.Index && mm.Begin == r.Begin && uint32(len(mm.Data)) == r.Length, "data answers exactly the queued request")
			vAssert(len(p.requested) == 0, "an answered request leaves the queue")
			// the requested range, read linearly: torrent offset index*piecesize+begin
			off := int64(mm.Index)*int64(psz) + int64(mm.Begin)
			if len(mm.Data) > 0 {
				vReach("piece-data")
				vAssert(off/int64(psz) == int64(index), "data only of a complete piece")
				vAssert(off%int64(psz)+int64(len(mm.Data)) <= int64(pl), "data stays inside the piece")
				j := vInt("j")
				if j >= 0 && j < len(mm.Data) && off/int64(psz) == int64(index) && int(off%int64(psz))+j < len(d) {
					vAssert(mm.Data[j] == d[int(off%int64(psz))+j], "payload is the verified content of the requested range")
				}
			}
		case protocol.RejectRequest:
			vReach("reject")
			vAssert(p.canFast, "reject only with the Fast extension")
			vAssert(mm.Index == r.Index && mm.Begin == r.Begin && mm.Length == r.Length, "reject names the request")
		default:
			vAssert(false, "an upload tick writes only piece data or a reject")
		}
	}
	if len(ws) == 0 {
		vReach("nothing")
	}
}

var vReqNames = [][]string{{"q0i", "q0b", "q0l"}, {"q1i", "q1b", "q1l"}}

// H_C16_step: one message / command against a peer with an upload queue of `n` entries
// (n = 0, 1, 2 symbolic entries, or 250 = the limit) in any choke state, write queue idle /
// congested / full. Parameter step: 0 Request, 1 Cancel, 2 Interested, 3 NotInterested,
// 4 PeerUnchoke{true}, 5 PeerUnchoke{false}, 6 exit of Run.
func H_C16_step() {
	pcs := &piece.Pieces{}
	pcs.MetadataComplete(16384, 4*16384)
	p, tev := vMkPeer(pcs)
	if !vBool("info") {
		p.Info = nil
	}
	p.canFast = vBool("fast")
	p.interested = uint32(vChoose("interested", 0, 1))
	p.amUnchoking = uint32(vChoose("unchoking", 0, 1))
	others := int32(vChoose("others", 0, 1))
	numUnchoking = others + int32(p.amUnchoking)
	n := vParam("n")
	if p.amUnchoking == 0 || p.Info == nil {
		n = 0 // invariant: nothing is queued for a peer we are choking / without metadata
	}
	for k := 0; k < n; k++ {
		if k < 2 {
			p.requested = append(p.requested, Requested{vU32(vReqNames[k][0]), vU32(vReqNames[k][1]), vU32(vReqNames[k][2])})
		} else {
			p.requested = append(p.requested, Requested{uint32(k), 0, 16384})
		}
	}
	fill := vParam("fill")
	vFill(p, fill)
	unBefore, numBefore, lenBefore := p.amUnchoking, numUnchoking, len(p.requested)
	m := Requested{vU32("mi"), vU32("mb"), vU32("ml")}
	var err error
	step := vParam("step")
	switch step {
	case 0:
		err = handleMessage(p, protocol.Request{Index: m.Index, Begin: m.Begin, Length: m.Length})
	case 1:
		err = handleMessage(p, protocol.Cancel{Index: m.Index, Begin: m.Begin, Length: m.Length})
	case 2:
		err = handleMessage(p, protocol.Interested{})
	case 3:
		err = handleMessage(p, protocol.NotInterested{})
	case 4:
		err = handleEvent(p, PeerUnchoke{true})
	case 5:
		err = handleEvent(p, PeerUnchoke{false})
	case 6:
		VRunExit(p, tev)
	}
	vReach("stepped")
	if step == 6 {
		vAssert(numUnchoking == others, "a peer that has exited is no longer counted as unchoked")
		return
	}
	vAssert(int32(p.amUnchoking)-int32(unBefore) == numUnchoking-numBefore, "the global count of unchoked peers moves with the peer's own flag")
	vAssert(numUnchoking >= 0, "the count never goes negative")
	vAssert(p.amUnchoking <= 1, "flag is 0 or 1")
	if err != nil {
		// the peer is being disconnected: what is left in its queue no longer matters
		vReach("dropped")
		return
	}
	vAssert(vImp(p.amUnchoking == 0, len(p.requested) == 0), "choking a peer empties its upload queue")
	vAssert(vImp(p.Info == nil, len(p.requested) == 0), "nothing is queued without metadata")
	vAssert(len(p.requested) <= 250, "the upload queue is bounded (250)")
	if step == 0 {
		if len(p.requested) > 0 {
			last := p.requested[len(p.requested)-1]
			vAssert(vImp(len(p.requested) > lenBefore || lenBefore == 250, last == m), "a request is queued as received")
		}
		vAssert(vImp(unBefore == 0, len(p.requested) == 0), "requests arriving while choked are never queued")
	}
	if step == 1 && lenBefore > 0 && lenBefore <= 2 {
		// exactly the first matching entry is removed, nothing else
		hit0 := p0eq(m, vU32(vReqNames[0][0]), vU32(vReqNames[0][1]), vU32(vReqNames[0][2]))
		hit1 := lenBefore == 2 && !hit0 && p0eq(m, vU32(vReqNames[1][0]), vU32(vReqNames[1][1]), vU32(vReqNames[1][2]))
		if hit0 || hit1 {
			vReach("cancel-hit")
			vAssert(len(p.requested) == lenBefore-1, "a matching cancel removes one entry")
		} else {
			vReach("cancel-miss")
			vAssert(len(p.requested) == lenBefore, "a cancel that matches nothing removes nothing")
		}
	}
}

func p0eq(m Requested, i, b, l uint32) bool { return m.Index == i && m.Begin == b && m.Length == l }

// H_C17_peer_exit: the whole of peer.Run with the torrent already gone and the torrent's event
// queue in any fill state (parameter free = free slots: 0, 1, 2 or plenty): Run returns (does
// not spin or block), closes the connection, and stops being counted as unchoked.
func H_C17_peer_exit() {
	pcs := &piece.Pieces{}
	pcs.MetadataComplete(16384, 4*16384)
	conn := &vFakeConn{}
	free := vParam("free")
	tev := make(chan TorEvent, 8)
	for i := 0; i < 8-free; i++ {
		tev <- TorGoAway{}
	}
	done := make(chan struct{})
	close(done)
	p := &Peer{conn: conn, Pieces: pcs, canFast: vBool("fast"), Port: uint32(vU16("port")), Event: make(chan PeerEvent, 4), Done: make(chan struct{})}
	un := uint32(vChoose("unchoking", 0, 1))
	p.amUnchoking = un
	numUnchoking = int32(un)
	err := Run(p, tev, done, []byte{1}, nil, nil)
	vReach("returned")
	_ = err
	vAssert(conn.closed, "the exit path closes the connection")
	vAssert(numUnchoking == 0, "a peer that has exited is not counted as unchoked")
}

// H_C18_run_prefix_proxied: the greeting of peer.Run (entry to return, torrent already gone) for
// a PROXIED torrent, peer address IPv4 or IPv6, DHT and extension capabilities on: no Port
// message; the extended handshake carries no version, no port and no IPv6 address; the local
// IPv6 address is not even looked up (getIPv6 dials out).
func H_C18_run_prefix_proxied() {
	pcs := &piece.Pieces{}
	pcs.MetadataComplete(16384, 4*16384)
	conn := &vFakeConn{}
	tev := make(chan TorEvent, 64)
	done := make(chan struct{})
	close(done)
	config.ProtocolPort = 23222
	config.SetExternalIPv4Port(23223, true)
	config.SetExternalIPv4Port(23224, false)
	ip := netip.AddrFrom4([4]byte{192, 0, 2, 1})
	if vBool("v6") {
		ip = netip.AddrFrom16([16]byte{0x20, 1, 0xd, 0xb8, 0, 0, 0, 0, 0, 0, 0, 0, 0, 0, 0, 1})
	}
	p := &Peer{conn: conn, Pieces: pcs, canFast: vBool("fast"), canDHT: true, canExtended: true, IP: ip, Event: make(chan PeerEvent, 4), Done: make(chan struct{})}
	proxied := vBool("proxied")
	if proxied {
		p.proxy = "socks5://127.0.0.1:9050"
	}
	Run(p, tev, done, []byte{1}, nil, nil)
	vReach("ran")
	nport, next := 0, 0
	for m := range p.writer {
		switch mm := m.(type) {
		case protocol.Port:
			nport++
		case protocol.Extended0:
			next++
			if proxied {
				vReach("proxied-greeting")
				vAssert(mm.Version == "" && mm.Port == 0 && !mm.IPv6.IsValid(), "a proxied torrent reveals neither client version, nor port, nor IPv6 address to peers")
			} else {
				vReach("plain-greeting")
				vAssert(mm.Version != "" && mm.Port != 0, "an unproxied torrent announces version and port")
			}
		}
	}
	vAssert(next == 1, "one extended handshake")
	vAssert(vImp(proxied, nport == 0), "a proxied torrent sends no DHT port message")
	vAssert(vImp(proxied, vEffect("cut:getIPv6") == 0), "a proxied torrent does not look up the local IPv6 address")
}
