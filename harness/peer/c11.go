//go:build verif

package peer

import (
	"net/netip"

	"github.com/jech/storrent/bitmap"
	"github.com/jech/storrent/pex"
	"github.com/jech/storrent/protocol"
	"github.com/jech/storrent/tor/piece"
)

// H_C11_chunk_arith: chunk number <-> (piece, offset) conversion and the block length, for
// every chunk of every torrent up to 2^45 bytes (chunk numbers beyond 2^18 and byte offsets
// beyond 4 GiB), piece size from the case split.
func H_C11_chunk_arith() {
	pcs, ps, total := vGeom(1 << 45)
	p, _ := vMkPeer(pcs)
	chunk := vU32("chunk")
	vAssume(chunk < vNumChunks(total))
	i, b := fromChunk(p, chunk)
	vAssert(int(i) < numPieces(p), "piece index in range")
	vAssert(b%16384 == 0 && b < ps, "offset aligned and inside the piece")
	vAssert(int64(i)*int64(ps)+int64(b) == int64(chunk)*16384, "piece*piecesize+offset is the chunk's byte position (64-bit)")
	vAssert(toChunk(p, i, b) == chunk, "toChunk inverts fromChunk")
	l := chunkSize(p, chunk)
	if chunk == vNumChunks(total)-1 && total%16384 != 0 {
		vReach("last-short")
		vAssert(int64(l) == total%16384, "the final block has the remaining length")
	} else {
		vReach("full")
		vAssert(l == 16384, "every other block is 16 KiB")
	}
	vAssert(int64(chunk)*16384+int64(l) <= total, "block inside the torrent")
	vAssert(b+l <= pcs.PieceLength(i), "block inside its piece")
}

var vQNames = []string{"q0", "q1", "q2"}
var vRNames = []string{"r0", "r1", "r2"}

// H_C11_maybeRequest_step: maybeRequest on a peer with <= 3 queued and <= 2 outstanding chunks,
// arbitrary choke / fast / bitmap state: every Request written is conformant.
func H_C11_maybeRequest_step() {
	pcs, ps, total := vGeom(int64(1) << uint(vParam("tb")))
	p, _ := vMkPeer(pcs)
	nc := vNumChunks(total)
	np := numPieces(p)
	p.unchoked = uint32(vChoose("unchoked", 0, 1))
	if vBool("hasfast") {
		f := vU32("fastpiece")
		vAssume(int(f) < np)
		p.fast = []uint32{f}
	}
	rq := vInt("reqq")
	vAssume(rq >= 1 && rq <= 500)
	p.reqQ = rq
	// requests: outstanding first (through the real API), then queued
	nr := vParam("nr")
	for k := 0; k < nr; k++ {
		c := vU32(vRNames[k])
		vAssume(c < nc)
		vAssume(p.requests.Enqueue(c))
		q, _ := p.requests.Dequeue()
		p.requests.EnqueueRequest(q)
	}
	nq := vParam("nq")
	for k := 0; k < nq; k++ {
		c := vU32(vQNames[k])
		vAssume(c < nc)
		vAssume(p.requests.Enqueue(c))
	}
	// the peer's advertised pieces: arbitrary for the pieces of the queued chunks
	for k := 0; k < nq; k++ {
		i, _ := fromChunk(p, vU32(vQNames[k]))
		if vBool(vQNames[k] + ".has") {
			p.bitmap.Set(int(i))
		}
	}
	before := p.requests.Requested()
	maybeRequest(p)
	after := p.requests.Requested()
	sent := 0
	for len(p.writer) > 0 {
		m := <-p.writer
		r, ok := m.(protocol.Request)
		vAssert(ok, "maybeRequest writes only requests")
		if !ok {
			continue
		}
		sent++
		vReach("request")
		vAssert(int(r.Index) < np, "request names an existing piece")
		vAssert(p.bitmap.Get(int(r.Index)), "request names a piece the peer advertised")
		vAssert(vAnd(r.Begin%16384 == 0, r.Begin < ps), "request offset aligned")
		vAssert(vOr(p.unchoked != 0, isFast(p, r.Index)), "request only while unchoked or allowed-fast")
		pos := int64(r.Index)*int64(ps) + int64(r.Begin)
		vAssert(pos < total, "request inside the torrent")
		last := vAnd(pos/16384 == int64(nc)-1, total%16384 != 0)
		vAssert(vImp(last, int64(r.Length) == total%16384), "final block requested with its exact length")
		vAssert(vImp(!last, r.Length == 16384), "block length is 16 KiB")
		// it was queued, not outstanding: one of q0..q2, none of r0..r1
		c := uint32(pos / 16384)
		isq := false
		for k := 0; k < nq; k++ {
			isq = vOr(isq, c == vU32(vQNames[k]))
		}
		vAssert(isq, "request is for a queued chunk")
		isr := false
		for k := 0; k < nr; k++ {
			isr = vOr(isr, c == vU32(vRNames[k]))
		}
		vAssert(!isr, "request not duplicated while outstanding")
	}
	vAssert(after-before == sent, "every request written is recorded as outstanding")
	lim := vIte(p.reqQ < 2, 2, p.reqQ)
	vAssert(vImp(sent > 0, after <= lim), "outstanding requests within the advertised queue depth (min 2)")
}

// H_C11_advert: the whole of peer.Run from entry to return with the torrent already gone (the
// main select leaves at once): the initial advertisement for ANY set of pieces held locally,
// piece count symbolic <= 24 (bitfield / have-all / have-none branches).
func H_C11_advert() {
	pcs := &piece.Pieces{}
	total := vI64("total")
	vAssume(total >= 1 && total <= 24*16384)
	pcs.MetadataComplete(16384, total)
	num := pcs.Num()
	bm := bitmap.Bitmap(vBytes("bm", 3))
	vAssume(len(bm) == (num+7)/8)
	for k := 0; k < 24; k++ {
		// what Pieces.Bitmap() produces: no bit at or beyond num
		vAssume(vImp(k >= num, !bm.Get(k)))
	}
	conn := &vFakeConn{}
	tev := make(chan TorEvent, 64)
	done := make(chan struct{})
	close(done)
	p := &Peer{conn: conn, Pieces: pcs, canFast: vBool("fast"), Event: make(chan PeerEvent, 4), Done: make(chan struct{})}
	Run(p, tev, done, []byte{1}, bm, nil)
	vReach("ran")
	vAssert(conn.closed, "exit path closes the connection")
	nbf, nall, nnone := 0, 0, 0
	for m := range p.writer {
		switch mm := m.(type) {
		case protocol.Bitfield:
			vReach("bitfield")
			nbf++
			vAssert(len(mm.Bitfield) == (num+7)/8, "bitfield has exactly ceil(pieces/8) bytes")
			j := vInt("j")
			if j >= num && j < 8*len(mm.Bitfield) {
				vAssert(!bitmap.Bitmap(mm.Bitfield).Get(j), "bitfield spare bits are zero")
			}
			if j >= 0 && j < num {
				vAssert(bitmap.Bitmap(mm.Bitfield).Get(j) == bm.Get(j), "bitfield advertises exactly the pieces held")
			}
		case protocol.Have:
			vAssert(int(mm.Index) < num && bm.Get(int(mm.Index)), "have names a piece held")
		case protocol.HaveAll:
			vReach("haveall")
			nall++
			vAssert(p.canFast && bm.All(num), "have-all only with Fast and all pieces")
		case protocol.HaveNone:
			vReach("havenone")
			nnone++
			vAssert(p.canFast, "have-none only with Fast")
		}
	}
	vAssert(nbf+nall+nnone <= 1, "at most one of bitfield / have-all / have-none")
	if !bm.Empty() {
		vAssert(nbf+nall+nnone == 1, "a non-empty piece set is advertised (bitfield or have-all; haves need >= 144 pieces)")
	}
}

// H_C11_advert_haves: the "individual haves" branch of Run needs count < pieces/72: 144..160
// pieces of which exactly one (any one) is held.
func H_C11_advert_haves() {
	pcs := &piece.Pieces{}
	total := vI64("total")
	vAssume(total > 143*16384 && total <= 160*16384)
	pcs.MetadataComplete(16384, total)
	num := pcs.Num()
	pos := vInt("pos")
	vAssume(pos >= 0 && pos < num)
	bm := bitmap.New(num)
	bm.Set(pos)
	conn := &vFakeConn{}
	tev := make(chan TorEvent, 64)
	done := make(chan struct{})
	close(done)
	p := &Peer{conn: conn, Pieces: pcs, canFast: vBool("fast"), Event: make(chan PeerEvent, 4), Done: make(chan struct{})}
	Run(p, tev, done, []byte{1}, bm, nil)
	vAssert(conn.closed, "exit path closes the connection")
	nhave, nnone := 0, 0
	for m := range p.writer {
		switch mm := m.(type) {
		case protocol.Bitfield:
			vAssert(false, "no bitfield when fewer than pieces/72 pieces are held")
		case protocol.Have:
			vReach("have")
			nhave++
			vAssert(int(mm.Index) == pos, "have names the piece held")
		case protocol.HaveAll:
			vAssert(false, "no have-all")
		case protocol.HaveNone:
			vReach("havenone")
			nnone++
			vAssert(p.canFast && nhave == 0, "have-none (Fast only) precedes the haves")
		}
	}
	vAssert(nhave == 1, "exactly one have")
	vAssert(nnone == vIte(p.canFast, 1, 0), "have-none iff Fast")
}

// ---- peer exchange ----

func vPexAddr(k int) netip.AddrPort {
	return netip.AddrPortFrom(netip.AddrFrom4([4]byte{192, 0, 2, byte(1 + k)}), 6881)
}

var vPexOpNames = []string{"op0", "op1", "op2", "op3", "op4"}
var vPexWhoNames = []string{"who0", "who1", "who2", "who3", "who4"}
var vPexFlagNames = []string{"fl0", "fl1", "fl2", "fl3", "fl4"}

// H_C11_pex_hist: histories of peer-set changes and PEX rounds (parameter steps <= 5) over 2
// distinct neighbours with arbitrary flags. Ghost state: `told` = what the remote has been told
// and not been told to drop; `cur` = the real current neighbour set. Every message the REAL
// sendPex writes is applied to `told`:  never a drop for a peer not told, never an add for a
// peer already told; and after the history plus two successful rounds told == cur.
func H_C11_pex_hist() {
	pcs := &piece.Pieces{}
	pcs.MetadataComplete(16384, 16384)
	p, _ := vMkPeer(pcs)
	p.pexExt = 1
	var told, cur [2]bool
	apply := func() {
		for len(p.writer) > 0 {
			m, ok := (<-p.writer).(protocol.ExtendedPex)
			vAssert(ok, "sendPex writes only PEX messages")
			for _, a := range m.Added {
				for k := 0; k < 2; k++ {
					if a.Addr == vPexAddr(k) {
						vAssert(!told[k], "never announces a peer twice")
						told[k] = true
					}
				}
			}
			for _, d := range m.Dropped {
				for k := 0; k < 2; k++ {
					if d.Addr == vPexAddr(k) {
						vAssert(told[k], "never drops a peer that was not announced")
						told[k] = false
					}
				}
			}
		}
	}
	steps := vParam("steps")
	for s := 0; s < steps; s++ {
		op := vChoose(vPexOpNames[s], 0, 2)
		switch op {
		case 0: // neighbour arrives (or is re-announced, possibly with other flags)
			k := vChoose(vPexWhoNames[s], 0, 1)
			handleEvent(p, PeerPex{Peers: []pex.Peer{{Addr: vPexAddr(k), Flags: vU8(vPexFlagNames[s])}}, Add: true})
			cur[k] = true
		case 1: // neighbour leaves (tor.delPeer reports it without flags)
			k := vChoose(vPexWhoNames[s], 0, 1)
			handleEvent(p, PeerPex{Peers: []pex.Peer{{Addr: vPexAddr(k), Flags: vU8(vPexFlagNames[s])}}, Add: false})
			cur[k] = false
		case 2: // the minute tick
			sendPex(p)
			apply()
		}
	}
	sendPex(p)
	apply()
	sendPex(p)
	apply()
	vReach("end")
	vAssert(told[0] == cur[0] && told[1] == cur[1], "after the last change and two rounds the remote's view is the neighbour set")
}
