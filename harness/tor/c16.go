//go:build verif

package tor

import (
	"time"

	"github.com/jech/storrent/peer"
)

var vPeerNames = [][]string{{"i0", "u0", "t0"}, {"i1", "u1", "t1"}, {"i2", "u2", "t2"}, {"i3", "u3", "t3"}, {"i4", "u4", "t4"}, {"i5", "u5", "t5"}, {"i6", "u6", "t6"}}
var vStatusN int

// vGetStatus stands in for Peer.GetStatus (answered by the peer goroutine): an arbitrary unchoke
// time per call (rates are floats: havoc'd by the engine anyway).
func vGetStatus(p *peer.Peer) *peer.PeerStatus {
	vStatusN++
	// unchoke times follow the peer numbers (a fixed order: the sort itself is library code)
	return &peer.PeerStatus{UnchokeTime: time.Unix(int64(p.Counter), 0)}
}

// H_C16_maybeUnchoke: the choking round over `n` peers of which the first `unchoked` (<= 5) are
// unchoked and the others choked with arbitrary interest (the invariant this function maintains): once the
// commands it issues are applied (every peer obeys: a choke clears the flag, an unchoke of an
// interested peer sets it), at most 5 peers are unchoked, and no peer is sent contradictory commands.
func H_C16_maybeUnchoke() {
	t := vLiveTorrent()
	n := vParam("n")
	before := 0
	nun := vParam("unchoked") // peers 0..nun-1 are unchoked; the others are choked, interested or not
	for k := 0; k < n; k++ {
		un, in := uint32(0), uint32(1)
		if k < nun {
			un = 1
		} else {
			in = uint32(vChoose(vPeerNames[k][0], 0, 1))
		}
		before += int(un)
		t.peers = append(t.peers, peer.VNewUploadPeer(in, un, uint32(k+1)))
	}
	vStatusN = 0
	maybeUnchoke(t, vParam("periodic") == 1)
	vReach("round-done")
	after := 0
	for _, p := range t.peers {
		un, ch := peer.VDrainUnchokes(p)
		vAssert(un+ch <= 1, "a peer gets at most one command per round")
		state := 0
		if p.AmUnchoking() {
			state = 1
		}
		if ch == 1 {
			vAssert(state == 1, "only unchoked peers are choked")
			state = 0
		}
		if un == 1 {
			vAssert(state == 0 && p.Interested(), "only choked, interested peers are unchoked")
			state = 1
		}
		after += state
	}
	vAssert(after <= 5, "at most 5 peers are unchoked after the round")
}
