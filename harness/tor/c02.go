//go:build verif

package tor

import (
	"context"
	"io"

	"github.com/jech/storrent/hash"
)

// vNoWait stands in for Reader.request in the C02 step harnesses: the piece is available, there
// is nothing to wait for (waiting and withdrawal are C10's and C17's subject).
func vNoWait(r *Reader, pos int64, limit int64) (<-chan struct{}, error) { return nil, nil }

// vStoreWithPiece: a store of symbolic length (<= 2^40, piece size from the case split) holding
// exactly one complete, verified piece `index` (<= 2 blocks) with symbolic content d.
func vStoreWithPiece() (*Torrent, uint32, int64, uint32, []byte) {
	psz := uint32(vParam("ps"))
	total := vI64("total")
	vAssume(total >= 1 && total <= int64(1)<<40)
	t := &Torrent{Hash: make([]byte, 20)}
	t.Pieces.MetadataComplete(psz, total)
	t.infoComplete = 1
	t.Done = make(chan struct{})
	index := vU32("index")
	vAssume(int64(index) < (total+int64(psz)-1)/int64(psz))
	pl := t.Pieces.PieceLength(index)
	vAssume(pl >= 1 && pl <= 2*16384)
	d := vBytes("d", 2*16384)
	vAssume(len(d) == int(pl))
	h := hash.Hash(vBytes("h", 20))
	vAssume(len(h) == 20)
	_, complete, _ := t.Pieces.AddData(index, 0, d, 1)
	vAssume(complete)
	done, _, _ := t.Pieces.Finalise(index, h)
	vAssume(done)
	return t, psz, total, index, d
}

// H_C02_read_step: one Read of a Reader with an ARBITRARY range (offset, length) inside the
// torrent, arbitrary position and buffer length: the bytes returned at position p are the store's
// verified bytes at offset+p, never beyond offset+length, the position advances by exactly n,
// and end-of-file is reported exactly at length.
func H_C02_read_step() {
	t, psz, total, index, d := vStoreWithPiece()
	off, length, pos := vI64("off"), vI64("len"), vI64("pos")
	vAssume(off >= 0 && length >= 0 && off <= total && length <= total-off && pos >= 0 && pos <= length+5)
	r := &Reader{torrent: t, offset: off, length: length, position: pos, requestedIndex: -1, context: context.Background()}
	n0 := vInt("buflen")
	vAssume(n0 >= 0 && n0 <= 3*16384)
	a := make([]byte, n0)
	n, err := r.Read(a)
	vAssert(n >= 0 && n <= len(a), "read count within the buffer")
	vAssert(r.position == pos+int64(n), "the position advances by exactly the bytes returned")
	if pos >= length {
		vReach("at-eof")
		vAssert(n == 0 && err == io.EOF, "at or beyond the end: end-of-file, no data")
		return
	}
	vAssert(pos+int64(n) <= length, "no byte beyond offset+length is returned")
	vAssert(vImp(err == io.EOF, pos+int64(n) == length), "end-of-file only at length")
	vAssert(vImp(vAnd(n > 0, pos+int64(n) == length), err == io.EOF), "reaching length reports end-of-file")
	if n > 0 {
		vReach("data")
		abs := off + pos
		vAssert(abs/int64(psz) == int64(index), "data only from the verified piece")
		b := int(abs % int64(psz))
		j := vInt("j")
		if j >= 0 && j < n && abs/int64(psz) == int64(index) && b+j < len(d) {
			vAssert(a[j] == d[b+j], "bytes at position p are the true content at offset+p")
		}
	} else {
		vReach("nothing")
	}
}

// H_C02_seek_step: Seek with any whence / offset from any position: the new position is what the
// io.Seeker contract says, negative positions and unknown whence values are refused without
// moving, a closed reader fails.
func H_C02_seek_step() {
	t := &Torrent{}
	length, pos := vI64("len"), vI64("pos")
	vAssume(length >= 0 && length <= int64(1)<<40 && pos >= 0 && pos <= int64(1)<<41)
	r := &Reader{torrent: t, offset: 0, length: length, position: pos, requestedIndex: -1, context: context.Background()}
	if vBool("closed") {
		r.torrent = nil
	}
	o := vI64("o")
	vAssume(o >= -(int64(1)<<41) && o <= int64(1)<<41)
	whence := vInt("whence")
	np, err := r.Seek(o, whence)
	if r.torrent == nil {
		vReach("closed")
		vAssert(err != nil && r.position == pos, "a closed reader fails and does not move")
		return
	}
	var want int64
	ok := true
	switch whence {
	case io.SeekStart:
		want = o
	case io.SeekCurrent:
		want = pos + o
	case io.SeekEnd:
		want = length + o
	default:
		ok = false
	}
	if !ok || want < 0 {
		vReach("refused")
		vAssert(err != nil && r.position == pos && np == pos, "invalid seeks are refused without moving")
		return
	}
	vReach("moved")
	vAssert(err == nil && np == want && r.position == want, "the position is what the Seeker contract says")
}

// H_C02_read_dead: a reader that has been reading piece 0 (its request for that piece is cached)
// when the torrent is deleted: its reads must fail promptly - within two calls - and return no
// data; a consumer that retries on (0, nil), as io.ReadFull and io.Copy do, must not spin for
// ever. The REAL Reader.request and Torrent.Request (no event loop: the torrent is dead, its
// queue has room).
func H_C02_read_dead() {
	t := vLiveTorrent()
	t.Pieces.Del()
	close(t.Done)
	pos := vI64("pos")
	vAssume(pos >= 0 && pos < 16384)
	r := &Reader{torrent: t, offset: 0, length: 2 * 16384, position: pos, requestedIndex: 0, context: vLiveContext()}
	r.requested = []requested{{0, 1}}
	a := make([]byte, 64)
	n1, err1 := r.Read(a)
	vAssert(n1 == 0, "no data from a deleted torrent")
	if err1 != nil {
		vReach("failed-at-once")
		return
	}
	n2, err2 := r.Read(a) // (0, nil) once is tolerated, twice is an endless loop for the consumer
	vAssert(n2 == 0 && err2 != nil, "reads of a deleted torrent fail promptly (no endless (0, nil))")
}
