//go:build verif

package tor

import (
	"context"
	"io"

	"github.com/jech/storrent/hash"
	"github.com/jech/storrent/path"
	"github.com/jech/storrent/peer"
	"github.com/jech/storrent/webseed"
)

var vFlenNames = []string{"flen0", "flen1", "flen2"}
var vFpadNames = []string{"fpad0", "fpad1", "fpad2"}
var vFNames = []string{"f0", "f1", "f2"}

// H_C14_fileChunks: for <= 3 files of arbitrary lengths >= 0 (zero-length and padding files
// included) laid out contiguously (total up to 2^40, so ranges beyond 4 GiB are covered) and an
// arbitrary range (piece, offset, length) inside the torrent: the file chunks are in order,
// each inside its file, of positive length, and tile the range exactly once.
func H_C14_fileChunks() {
	ps := uint32(vParam("ps"))
	nf := vParam("files")
	t := &Torrent{}
	var total int64
	for i := 0; i < nf; i++ {
		l := vI64(vFlenNames[i])
		vAssume(l >= 0 && l <= int64(1)<<40)
		t.Files = append(t.Files, Torfile{Path: path.Path{vFNames[i]}, Offset: total, Length: l, Padding: vBool(vFpadNames[i])})
		total += l
	}
	vAssume(total >= 1 && total <= int64(1)<<40)
	t.Pieces.MetadataComplete(ps, total)
	index, offset, length := vU32("index"), vU32("offset"), vU32("length")
	vAssume(offset < ps && length >= 1 && length <= ps && offset <= ps-length)
	o := int64(index)*int64(ps) + int64(offset)
	vAssume(o+int64(length) <= total)
	fcs := fileChunks(t, index, offset, length)
	vReach("mapped")
	pos := o
	var sum int64
	last := -1
	for _, fc := range fcs {
		vReach("chunk")
		fi := -1
		for i := 0; i < nf; i++ {
			if len(fc.path) == 1 && fc.path[0] == vFNames[i] {
				fi = i
			}
		}
		vAssert(fi > last, "chunks name files of the torrent in order, each at most once")
		if fi < 0 {
			return
		}
		last = fi
		f := t.Files[fi]
		vAssert(fc.filelength == f.Length && fc.pad == f.Padding, "chunk carries its file's length and padding flag")
		vAssert(fc.length > 0, "chunk lengths are positive")
		vAssert(fc.offset >= 0 && fc.offset+fc.length <= f.Length, "chunk lies inside its file")
		vAssert(f.Offset+fc.offset == pos, "chunks are contiguous: each starts where the previous ended")
		pos += fc.length
		sum += fc.length
	}
	vAssert(sum == int64(length) && pos == o+int64(length), "the chunks cover the range exactly once")
}

// a reader whose first two reads return a solver-chosen number of bytes (then everything)
type vSrcReader struct {
	data  []byte
	pos   int
	reads int
	fail  bool
}

func (r *vSrcReader) Read(b []byte) (int, error) {
	avail := len(r.data) - r.pos
	if avail == 0 {
		if r.fail {
			return 0, io.ErrUnexpectedEOF
		}
		return 0, io.EOF
	}
	if len(b) == 0 {
		return 0, nil
	}
	var k int
	if r.reads < 2 {
		k = vFreshInt("k")
		vAssume(k >= 1 && k <= len(b) && k <= avail)
	} else {
		k = len(b)
		if avail < k {
			k = avail
		}
	}
	r.reads++
	copy(b[:k], r.data[r.pos:r.pos+k])
	r.pos += k
	return k, nil
}

// H_C14_writer: the web-seed writer fed by io.Copy's ReadFrom (1 or 2 calls, as across two
// files) from sources that are short, exact or over-long, cut into arbitrary reads, possibly
// failing; reservation as maybeWebseed makes it (whole blocks, or up to the end of the piece).
// The events it emits are read off the torrent's real event channel: data events are in
// sequence from offset0, the final drop covers exactly the rest, the blocks released (rounding
// up, as tor.handleEvent does - C09 decides that side) are exactly the blocks reserved; every
// byte stored is stream byte s at offset0+s and nothing is stored at or beyond offset0+length.
func H_C14_writer() {
	t, ps, total := vMkTorrent()
	index := vU32("index")
	vAssume(int64(index) < (total+int64(ps)-1)/int64(ps))
	pl := t.Pieces.PieceLength(index)
	offset := vU32("offset")
	vAssume(offset%16384 == 0 && offset < pl)
	length := vU32("length")
	vAssume(length >= 1 && length <= pl && offset <= pl-length && length <= 2*16384)
	vAssume(length%16384 == 0 || offset+length == pl)
	w := NewWriter(t, index, offset, length)
	src := &vSrcReader{data: vBytes("src", 2*16384+5), fail: vBool("fail")}
	var n2 int64
	n1, _ := w.ReadFrom(src)
	if vParam("second") == 1 {
		src2 := &vSrcReader{data: vBytes("src2", 16384+5)}
		n2, _ = w.ReadFrom(src2)
	}
	w.Close()
	vAssert(n1 <= int64(len(src.data)), "no more consumed than offered")
	released := uint32(0)
	committed := uint32(0)
	drops := 0
	for len(t.Event) > 0 {
		switch e := (<-t.Event).(type) {
		case peer.TorData:
			vReach("tordata")
			vAssert(e.Index == index && e.Begin == offset+committed, "data events are in sequence from offset0")
			vAssert(drops == 0, "no data after the final drop")
			committed += e.Length
			released += (e.Length + 16383) / 16384
		case peer.TorDrop:
			vReach("tordrop")
			drops++
			vAssert(e.Index == index && e.Begin == offset+committed, "the drop starts where the committed part ends")
			vAssert(committed+e.Length == length, "the drop covers exactly the rest of the reservation")
			released += (e.Length + 16383) / 16384
		}
	}
	vReach("closed")
	vAssert(drops <= 1, "at most one drop")
	vAssert(committed <= length, "nothing committed beyond the range")
	vAssert(vImp(drops == 0, committed == length), "without a drop the whole range was committed")
	vAssert(released == (length+16383)/16384, "every reserved block is released exactly once")
	// what was stored
	j := vU32("j")
	data := t.Pieces.VData(index)
	if len(data) > 0 && j < pl {
		blk := int(j / 16384)
		if t.Pieces.VHasBlock(index, blk) {
			vReach("stored")
			vAssert(j >= offset && j < offset+length, "nothing is stored outside the requested range")
			vAssert(j < offset+committed, "what is stored was reported as committed")
			s := int64(j - offset)
			if s < n1 && n2 == 0 {
				vAssert(data[j] == src.data[s], "stream byte s is stored at offset0+s")
			}
		}
	}
}

// H_C14_release: reservation to release, end to end: the blocks maybeWebseed reserves for a fetch
// (in-flight count 1 on each block of the range, 0 elsewhere; the range is whole blocks or runs
// to the end of the piece, as H_C14_maybeWebseed establishes) - then the REAL writer fed from a
// source that is short, exact, over-long or failing - then every event it emitted handled by the
// REAL tor.handleEvent: afterwards no block of the torrent is left reserved, whatever the length
// of the torrent's last block.
func H_C14_release() {
	ps := uint32(vParam("ps"))
	total := vI64("total")
	vAssume(total >= 1 && total <= int64(1)<<uint(vParam("tb")))
	t := &Torrent{Hash: hash.Hash(make([]byte, 20)), requested: Requested{pieces: make(map[uint32]*RequestedPiece)}}
	t.Pieces.MetadataComplete(ps, total)
	t.inFlight = make([]uint8, (total+16383)/16384)
	t.PieceHashes = make([]hash.Hash, t.Pieces.Num())
	t.infoComplete = 1
	t.Event = make(chan peer.TorEvent, 512)
	t.Done = make(chan struct{})
	index := vU32("index")
	vAssume(int64(index) < (total+int64(ps)-1)/int64(ps))
	pl := t.Pieces.PieceLength(index)
	offset := vU32("offset")
	vAssume(offset%16384 == 0 && offset < pl)
	length := vU32("length")
	vAssume(length >= 1 && length <= pl && offset <= pl-length && length <= 2*16384)
	vAssume(length%16384 == 0 || offset+length == pl)
	first := index*(ps/16384) + offset/16384
	n := (length + 16383) / 16384
	for i := uint32(0); i < n; i++ {
		t.inFlight[first+i] = 1
	}
	w := NewWriter(t, index, offset, length)
	src := &vSrcReader{data: vBytes("src", 2*16384+5), fail: vBool("fail")}
	w.ReadFrom(src)
	w.Close()
	vDrain(t)
	vReach("drained")
	k := vU32("k")
	if int(k) < len(t.inFlight) {
		vAssert(t.inFlight[k] == 0, "every block reserved for the fetch is released when it ends")
	}
}

// the model web server of H_C14_gr: file i holds vGRFile[i]; a request for (offset, length) of a
// file is answered with the first k <= length bytes of that range (k solver-chosen: exact, short
// or empty - a well-formed short answer included), cut into arbitrary reads, and reports k with
// or without an error.
var vGRFile [2][]byte
var vGRCalls int

func vGRGet(ws *webseed.GetRight, ctx context.Context, proxy string, name string, file []string, flength, offset, length int64, w io.Writer) (int64, error) {
	fi := 0
	if file[0] == "f1" {
		fi = 1
	}
	vGRCalls++
	k := int64(vFreshInt("gk"))
	vAssume(k >= 0 && k <= length)
	n, _ := w.(io.ReaderFrom).ReadFrom(&vSrcReader{data: vGRFile[fi][offset : offset+k], reads: 1})
	if k < length && vBool("gerr") {
		return n, io.ErrUnexpectedEOF
	}
	return n, nil
}

// H_C14_gr: a GetRight fetch of a whole 32 KiB piece that spans two files (the first of any
// length 1..32767), through the REAL webseedGR, fileChunks and writer, against the model server
// above: every byte that ends up stored in the piece is the byte of the file that owns that
// offset - a short answer for the first file never lets the second file's bytes slide into the
// gap - and nothing is fetched after a short answer.
func H_C14_gr() {
	l0 := vI64("l0")
	vAssume(l0 >= 1 && l0 < 32768)
	t := &Torrent{Hash: hash.Hash(make([]byte, 20)), Name: "n", requested: Requested{pieces: make(map[uint32]*RequestedPiece)}}
	t.Files = []Torfile{{Path: path.Path{"f0"}, Offset: 0, Length: l0}, {Path: path.Path{"f1"}, Offset: l0, Length: 32768 - l0}}
	t.Pieces.MetadataComplete(32768, 32768)
	t.inFlight = make([]uint8, 2)
	t.PieceHashes = make([]hash.Hash, 1)
	t.infoComplete = 1
	t.Event = make(chan peer.TorEvent, 512)
	t.Done = make(chan struct{})
	vGRFile[0], vGRFile[1] = make([]byte, 32768), make([]byte, 32768)
	vHavocBytes(vGRFile[0], "file0")
	vHavocBytes(vGRFile[1], "file1")
	vGRCalls = 0
	ws := webseed.VNew("http://ws/", true).(*webseed.GetRight)
	webseedGR(context.Background(), ws, t, 0, 0, 32768)
	vReach("fetched")
	vAssert(vGRCalls >= 1 && vGRCalls <= 2, "each file of the range is asked for at most once")
	j := vU32("j")
	data := t.Pieces.VData(0)
	if len(data) > 0 && j < 32768 && t.Pieces.VHasBlock(0, int(j/16384)) {
		vReach("stored")
		if int64(j) < l0 {
			vAssert(data[j] == vGRFile[0][j], "a stored byte is the byte of the file that owns its offset (first file)")
		} else {
			vAssert(data[j] == vGRFile[1][int64(j)-l0], "a stored byte is the byte of the file that owns its offset (second file)")
		}
	}
}

var vFetchIndex, vFetchOffset, vFetchLength uint32
var vFetches int

// vFetchRecorder stands in for the web-seed fetch goroutines: it records the range handed to them.
func vFetchRecorder(ctx context.Context, ws *webseed.GetRight, t *Torrent, index, offset, length uint32) {
	vFetches++
	vFetchIndex, vFetchOffset, vFetchLength = index, offset, length
}

// H_C14_maybeWebseed: the reservation made for a web-seed fetch: piece `index` (<= 4 blocks) holds
// an arbitrary subset of its blocks, in-flight counters arbitrary: if a fetch is started, the range
// handed to it lies inside the piece, starts at a hole whose first block nobody has in flight, and
// EXACTLY the blocks of that range have their in-flight count raised by one.
func H_C14_maybeWebseed() {
	t, ps, total := vMkTorrent()
	t.useWebseeds = true
	t.webseeds = []webseed.Webseed{webseed.VNew("http://ws/", true)}
	index := vU32("index")
	vAssume(int64(index) < (total+int64(ps)-1)/int64(ps))
	pl := t.Pieces.PieceLength(index)
	vAssume(pl >= 1 && pl <= 4*16384)
	for b := uint32(0); b*16384 < pl && b < 4; b++ {
		if vBool([]string{"has0", "has1", "has2", "has3"}[b]) {
			l := pl - b*16384
			if l > 16384 {
				l = 16384
			}
			t.Pieces.AddData(index, b*16384, make([]byte, l), 1)
		}
	}
	x := vU32("x")
	vAssume(int64(x) < (total+16383)/16384)
	vAssume(t.inFlight[x] < 200)
	pre := t.inFlight[x]
	vFetches = 0
	started := maybeWebseed(context.Background(), t, index, false)
	delta := int(t.inFlight[x]) - int(pre)
	if !started {
		vReach("no-fetch")
		vAssert(vFetches == 0 && delta == 0, "no fetch, no reservation")
		return
	}
	vReach("fetch")
	vAssert(vFetches == 1 && vFetchIndex == index, "one fetch, for the piece asked for")
	o, l := vFetchOffset, vFetchLength
	vAssert(o%16384 == 0 && l >= 1 && o < pl && l <= pl-o, "the range lies inside the piece, block aligned")
	vAssert(l%16384 == 0 || o+l == pl, "the range ends at a block boundary or at the end of the piece")
	cpp := ps / 16384
	first := index*cpp + o/16384
	n := (l + 16383) / 16384
	in := vAnd(x >= first, x < first+n)
	vAssert(delta == vIte(in, 1, 0), "exactly the blocks of the range are reserved, once each")
	vAssert(vImp(x == first, pre == 0), "the range starts at a block nobody has in flight")
	vAssert(!t.Pieces.VHasBlock(index, int(o/16384)), "the range starts at a hole")
}
