//go:build verif

package tor

import (
	"context"
	"math/rand/v2"
	"net"
	"net/netip"
	"time"

	"github.com/jech/storrent/config"
	"github.com/jech/storrent/crypto"
	"github.com/jech/storrent/hash"
	"github.com/jech/storrent/peer"
	"github.com/jech/storrent/protocol"
	"github.com/jech/storrent/tracker"
	"github.com/jech/storrent/webseed"
)

// ---- ghost observations of the outside world ----

var vDhtCalls int
var vDhtPort uint16

// vDhtAnnounce stands in for dht.Announce and records what is disclosed to the DHT.
func vDhtAnnounce(id []byte, ipv6 bool, port uint16) error {
	vDhtCalls++
	vDhtPort = port
	return nil
}

type vTracker struct {
	calls        int
	port4, port6 int
	proxy        string
	t            *Torrent // when set: the torrent whose switch is sampled at the moment the loop consults the tracker
	enabledAtAsk bool
	badCalls     int // announces decided while tracker use was disabled
}

func (tr *vTracker) URL() string { return "tr" }
func (tr *vTracker) GetState() (tracker.State, error) {
	if tr.t != nil {
		tr.enabledAtAsk = tr.t.useTrackers
	}
	return tracker.Ready, nil
}
func (tr *vTracker) Announce(ctx context.Context, hash []byte, myid []byte, want int, size int64, port4, port6 int, proxy string, f func(netip.AddrPort) bool) error {
	tr.calls++
	if tr.t != nil && !tr.enabledAtAsk {
		tr.badCalls++
	}
	tr.port4, tr.port6, tr.proxy = port4, port6, proxy
	return nil
}

func vConfTorrent() *Torrent {
	t := vLiveTorrent()
	if vBool("proxied") {
		t.proxy = "socks5://127.0.0.1:9050"
	}
	t.dhtMode = config.DhtMode(vChoose("dht", 0, 2))
	t.useTrackers = vBool("trackers")
	t.useWebseeds = vBool("webseeds")
	config.ProtocolPort = 23222
	config.SetExternalIPv4Port(23223, true)
	config.SetExternalIPv4Port(23224, false)
	return t
}

// H_C18_announce: after an ARBITRARY configuration change (or none) the DHT announce discloses
// exactly what the settings allow: nothing in mode 'none', a port only in mode 'normal' without
// a proxy; and the settings are what was requested - in both metadata states.
func H_C18_announce() {
	t := vConfTorrent()
	if vBool("no-metadata") {
		t.infoComplete = 0
	}
	ctx := context.Background()
	tr := &vTracker{t: t}
	t.trackers = [][]tracker.Tracker{{tr}}
	t.rand = rand.New(rand.NewPCG(1, 2))
	if vBool("setconf") {
		conf := peer.TorConf{DhtMode: config.DhtMode(vChoose("dht2", 0, 2)), UseTrackers: vBool("trackers2"), UseWebseeds: vBool("webseeds2")}
		err := handleEvent(ctx, t, peer.TorSetConf{Conf: conf})
		vJoin()
		vAssert(err == nil, "a configuration change does not stop the torrent")
		vReach("reconfigured")
		vAssert(tr.badCalls == 0, "a configuration change contacts no tracker while tracker use is (now) disabled")
		vAssert(vImp(tr.calls > 0 && t.proxy != "", tr.port4 == 0 && tr.port6 == 0), "a configuration change reveals no port to a tracker when proxied")
		vAssert(t.dhtMode == conf.DhtMode && t.useTrackers == conf.UseTrackers && t.useWebseeds == conf.UseWebseeds, "a configuration change is applied as requested")
	}
	vDhtCalls, vDhtPort = 0, 0
	t.announce(vBool("ipv6"))
	if t.dhtMode <= config.DhtNone {
		vReach("dht-off")
		vAssert(vDhtCalls == 0, "no DHT announce in mode 'none'")
		return
	}
	vReach("dht-on")
	vAssert(vDhtCalls == 1, "one announce")
	vAssert(vImp(vDhtPort != 0, t.dhtMode >= config.DhtNormal && t.proxy == ""), "a port is advertised only in 'normal' mode without a proxy")
}

// H_C18_tracker_ports: what a tracker is told: a proxied torrent never reveals the listening
// port (ports 0/0); and the webseed gate: maybeWebseed starts no fetch unless web seeds are on.
func H_C18_tracker_ports() {
	t := vConfTorrent()
	tr := &vTracker{}
	trackerAnnounceSingle(context.Background(), t, tr)
	vReach("announced")
	vAssert(tr.calls == 1, "one announce")
	vAssert(vImp(t.proxy != "", tr.port4 == 0 && tr.port6 == 0), "a proxied torrent reveals no listening port to trackers")
	vAssert(tr.proxy == t.proxy, "the tracker is contacted through the torrent's proxy")
	// web-seed gate
	t.webseeds = []webseed.Webseed{webseed.VNew("http://ws/", true)}
	started := maybeWebseed(context.Background(), t, 0, false)
	vAssert(vImp(started, t.useWebseeds), "a web-seed fetch starts only while web seeds are enabled")
	if started {
		vReach("fetch-started")
	}
}

// H_C18_infoHashes: the torrents offered to INCOMING handshakes (infoHashes(false)) never include
// a proxied torrent; the full list (used for DHT bookkeeping) has them all.
func H_C18_infoHashes() {
	h0 := hash.Hash([]byte{0, 1, 2, 3, 4, 5, 6, 7, 8, 9, 10, 11, 12, 13, 14, 15, 16, 17, 18, 19})
	h1 := hash.Hash([]byte{1, 1, 2, 3, 4, 5, 6, 7, 8, 9, 10, 11, 12, 13, 14, 15, 16, 17, 18, 19})
	t0 := VRegister(h0, "a", nil, 100)
	t1 := VRegister(h1, "b", nil, 100)
	p0, p1 := vBool("p0"), vBool("p1")
	if p0 {
		t0.proxy = "socks5://x"
	}
	if p1 {
		t1.proxy = "socks5://x"
	}
	in := infoHashes(false)
	all := infoHashes(true)
	vReach("listed")
	want := 0
	if !p0 {
		want++
	}
	if !p1 {
		want++
	}
	vAssert(len(all) == 2 && len(in) == want, "incoming handshakes are offered exactly the unproxied torrents")
	for _, hp := range in {
		vAssert(vImp(hp.First.Equal(h0), !p0) && vImp(hp.First.Equal(h1), !p1), "a proxied torrent is never offered to an incoming connection")
	}
	del(h0)
	del(h1)
}

// H_C18_loop: the REAL event loop Torrent.run with its slow (20 s) ticker delivering up to two
// ticks and its context cancellable at any point, from an arbitrary fixed configuration: the
// periodic work contacts a tracker only while tracker use is enabled (and then without ports if
// proxied), and announces to the DHT only when the DHT mode is not 'none'.
func H_C18_loop() {
	t := vConfTorrent()
	tr := &vTracker{t: t}
	t.trackers = [][]tracker.Tracker{{tr}}
	vDhtCalls, vDhtPort = 0, 0
	reconf := vBool("setconf")
	if reconf {
		// a configuration change is waiting in the queue: the loop takes it before, between or after the ticks
		t.Event <- peer.TorSetConf{Conf: peer.TorConf{DhtMode: t.dhtMode, UseTrackers: vBool("trackers2"), UseWebseeds: t.useWebseeds}}
	}
	vTickers(2, 2)
	ctx := context.Background()
	go func() {
		t.run(ctx)
		close(t.Deleted)
	}()
	<-t.Deleted
	vJoin()
	vReach("loop-ended")
	if tr.calls > 0 {
		vReach("tracker-contacted")
	}
	if vDhtCalls > 0 {
		vReach("dht-announced")
	}
	vAssert(tr.badCalls == 0, "the loop contacts a tracker only while tracker use is enabled (sampled when it decides to announce)")
	vAssert(vImp(tr.calls > 0 && !reconf, t.useTrackers), "the periodic loop contacts a tracker only while tracker use is enabled")
	vAssert(vImp(tr.calls > 0 && t.proxy != "", tr.port4 == 0 && tr.port6 == 0), "the periodic loop reveals no port to a tracker when proxied")
	vAssert(vImp(vDhtCalls > 0, t.dhtMode > config.DhtNone), "the periodic loop announces to the DHT only when the mode is not 'none'")
	vAssert(vImp(vDhtPort != 0, t.dhtMode >= config.DhtNormal && t.proxy == ""), "the periodic loop advertises a port only in 'normal' mode without a proxy")
}

// ---- incoming connections ----

type vInConn struct{ closed bool }

func (c *vInConn) Read(b []byte) (int, error)         { return 0, nil }
func (c *vInConn) Write(b []byte) (int, error)        { return len(b), nil }
func (c *vInConn) Close() error                       { c.closed = true; return nil }
func (c *vInConn) LocalAddr() net.Addr                { return nil }
func (c *vInConn) RemoteAddr() net.Addr               { return &net.TCPAddr{IP: net.IP{8, 8, 8, 8}, Port: 4000} }
func (c *vInConn) SetDeadline(t time.Time) error      { return nil }
func (c *vInConn) SetReadDeadline(t time.Time) error  { return nil }
func (c *vInConn) SetWriteDeadline(t time.Time) error { return nil }

// models of the address predicates of package net (the remote address is 8.8.8.8)
func vIsGlobalUnicast(ip net.IP) bool { return vBool("global") }
func vTo4(ip net.IP) net.IP {
	if len(ip) == 4 {
		return ip
	}
	return nil
}
func vTo16(ip net.IP) net.IP { return nil }

var vOffered []hash.HashPair
var vNewPeerOn *Torrent

// vServerHandshake stands in for protocol.ServerHandshake: it records the torrents it is offered
// and either fails or - like the real one - succeeds for ONE OF THE OFFERED torrents (any of
// them), with an arbitrary remote peer id.
func vServerHandshake(c net.Conn, hashes []hash.HashPair, o *crypto.Options) (net.Conn, protocol.HandshakeResult, []byte, error) {
	vOffered = hashes
	if len(hashes) == 0 || vBool("hs-fails") {
		return c, protocol.HandshakeResult{}, nil, protocol.ErrUnknownTorrent
	}
	k := 0
	if len(hashes) > 1 && vBool("hs-second") {
		k = 1
	}
	id := vBytes("remote-id", 20)
	vAssume(len(id) == 20)
	return c, protocol.HandshakeResult{Hash: hashes[k].First, Id: id[:20]}, nil, nil
}
func vNewPeer(t *Torrent, proxy string, conn net.Conn, addr netip.AddrPort, incoming bool, result protocol.HandshakeResult, init []byte) error {
	vNewPeerOn = t
	return nil
}
func vSrvStats(t *Torrent) (*peer.TorStats, error) {
	return &peer.TorStats{NumPeers: vInt("npeers")}, nil
}
func vSrvDropPeer(t *Torrent) (bool, error)                    { return vBool("dropped"), nil }
func vSrvGetPeer(t *Torrent, id hash.Hash) (*peer.Peer, error) { return nil, nil }

// H_C18_server: the REAL tor.Server on an incoming connection from a global address, two torrents
// registered, each proxied or not: the handshake is offered only unproxied torrents (so a proxied
// torrent's info-hash is never answered and its peer id never shown), and no incoming connection
// ever becomes a peer of a proxied torrent.
func H_C18_server() {
	h0 := hash.Hash([]byte{0, 1, 2, 3, 4, 5, 6, 7, 8, 9, 10, 11, 12, 13, 14, 15, 16, 17, 18, 19})
	h1 := hash.Hash([]byte{1, 1, 2, 3, 4, 5, 6, 7, 8, 9, 10, 11, 12, 13, 14, 15, 16, 17, 18, 19})
	t0 := VRegister(h0, "a", nil, 100)
	t1 := VRegister(h1, "b", nil, 100)
	t0.MyId, t1.MyId = make([]byte, 20), make([]byte, 20)
	if vBool("p0") {
		t0.proxy = "socks5://x"
	}
	if vBool("p1") {
		t1.proxy = "socks5://x"
	}
	vOffered, vNewPeerOn = nil, nil
	conn := &vInConn{}
	err := Server(conn, &crypto.Options{})
	vReach("served")
	for _, hp := range vOffered {
		vAssert(vImp(hp.First.Equal(h0), t0.proxy == "") && vImp(hp.First.Equal(h1), t1.proxy == ""), "an incoming handshake is never offered a proxied torrent")
	}
	if vNewPeerOn != nil {
		vReach("accepted")
		vAssert(err == nil && vNewPeerOn.proxy == "", "an incoming connection never becomes a peer of a proxied torrent")
	} else {
		vReach("refused")
	}
	del(h0)
	del(h1)
}
