//go:build verif

package tor

import (
	"context"
	"net/netip"

	"github.com/jech/storrent/config"
	"github.com/jech/storrent/hash"
	"github.com/jech/storrent/peer"
	"github.com/jech/storrent/tracker"
	"github.com/jech/storrent/webseed"
)

// ---- ghost observations of the outside world ----

var vDhtCalls int
var vDhtPort uint16

// vDhtAnnounce stands in for dht.Announce and records what is disclosed to the DHT.
func vDhtAnnounce(id []byte, ipv6 bool, port uint16) error {
	vDhtCalls++
	vDhtPort = port
	return nil
}

type vTracker struct {
	calls        int
	port4, port6 int
	proxy        string
}

func (tr *vTracker) URL() string                         { return "tr" }
func (tr *vTracker) GetState() (tracker.State, error)    { return tracker.Ready, nil }
func (tr *vTracker) Announce(ctx context.Context, hash []byte, myid []byte, want int, size int64, port4, port6 int, proxy string, f func(netip.AddrPort) bool) error {
	tr.calls++
	tr.port4, tr.port6, tr.proxy = port4, port6, proxy
	return nil
}

func vConfTorrent() *Torrent {
	t := vLiveTorrent()
	if vBool("proxied") {
		t.proxy = "socks5://127.0.0.1:9050"
	}
	t.dhtMode = config.DhtMode(vChoose("dht", 0, 2))
	t.useTrackers = vBool("trackers")
	t.useWebseeds = vBool("webseeds")
	config.ProtocolPort = 23222
	config.SetExternalIPv4Port(23223, true)
	config.SetExternalIPv4Port(23224, false)
	return t
}

// H_C18_announce: after an ARBITRARY configuration change (or none) the DHT announce discloses
// exactly what the settings allow: nothing in mode 'none', a port only in mode 'normal' without
// a proxy; and the settings are what was requested - in both metadata states.
func H_C18_announce() {
	t := vConfTorrent()
	if vBool("no-metadata") {
		t.infoComplete = 0
	}
	ctx := context.Background()
	if vBool("setconf") {
		conf := peer.TorConf{DhtMode: config.DhtMode(vChoose("dht2", 0, 2)), UseTrackers: vBool("trackers2"), UseWebseeds: vBool("webseeds2")}
		err := handleEvent(ctx, t, peer.TorSetConf{Conf: conf})
		vAssert(err == nil, "a configuration change does not stop the torrent")
		vReach("reconfigured")
		vAssert(t.dhtMode == conf.DhtMode && t.useTrackers == conf.UseTrackers && t.useWebseeds == conf.UseWebseeds, "a configuration change is applied as requested")
	}
	vDhtCalls, vDhtPort = 0, 0
	t.announce(vBool("ipv6"))
	if t.dhtMode <= config.DhtNone {
		vReach("dht-off")
		vAssert(vDhtCalls == 0, "no DHT announce in mode 'none'")
		return
	}
	vReach("dht-on")
	vAssert(vDhtCalls == 1, "one announce")
	vAssert(vImp(vDhtPort != 0, t.dhtMode >= config.DhtNormal && t.proxy == ""), "a port is advertised only in 'normal' mode without a proxy")
}

// H_C18_tracker_ports: what a tracker is told: a proxied torrent never reveals the listening
// port (ports 0/0); and the webseed gate: maybeWebseed starts no fetch unless web seeds are on.
func H_C18_tracker_ports() {
	t := vConfTorrent()
	tr := &vTracker{}
	trackerAnnounceSingle(context.Background(), t, tr)
	vReach("announced")
	vAssert(tr.calls == 1, "one announce")
	vAssert(vImp(t.proxy != "", tr.port4 == 0 && tr.port6 == 0), "a proxied torrent reveals no listening port to trackers")
	vAssert(tr.proxy == t.proxy, "the tracker is contacted through the torrent's proxy")
	// web-seed gate
	t.webseeds = []webseed.Webseed{webseed.VNew("http://ws/", true)}
	started := maybeWebseed(context.Background(), t, 0, false)
	vAssert(vImp(started, t.useWebseeds), "a web-seed fetch starts only while web seeds are enabled")
	if started {
		vReach("fetch-started")
	}
}

// H_C18_infoHashes: the torrents offered to INCOMING handshakes (infoHashes(false)) never include
// a proxied torrent; the full list (used for DHT bookkeeping) has them all.
func H_C18_infoHashes() {
	h0 := hash.Hash([]byte{0, 1, 2, 3, 4, 5, 6, 7, 8, 9, 10, 11, 12, 13, 14, 15, 16, 17, 18, 19})
	h1 := hash.Hash([]byte{1, 1, 2, 3, 4, 5, 6, 7, 8, 9, 10, 11, 12, 13, 14, 15, 16, 17, 18, 19})
	t0 := VRegister(h0, "a", nil, 100)
	t1 := VRegister(h1, "b", nil, 100)
	p0, p1 := vBool("p0"), vBool("p1")
	if p0 {
		t0.proxy = "socks5://x"
	}
	if p1 {
		t1.proxy = "socks5://x"
	}
	in := infoHashes(false)
	all := infoHashes(true)
	vReach("listed")
	want := 0
	if !p0 {
		want++
	}
	if !p1 {
		want++
	}
	vAssert(len(all) == 2 && len(in) == want, "incoming handshakes are offered exactly the unproxied torrents")
	for _, hp := range in {
		vAssert(vImp(hp.First.Equal(h0), !p0) && vImp(hp.First.Equal(h1), !p1), "a proxied torrent is never offered to an incoming connection")
	}
	del(h0)
	del(h1)
}

// H_C18_loop: the REAL event loop Torrent.run with its slow (20 s) ticker delivering up to two
// ticks and its context cancellable at any point, from an arbitrary fixed configuration: the
// periodic work contacts a tracker only while tracker use is enabled (and then without ports if
// proxied), and announces to the DHT only when the DHT mode is not 'none'.
func H_C18_loop() {
	t := vConfTorrent()
	tr := &vTracker{}
	t.trackers = [][]tracker.Tracker{{tr}}
	vDhtCalls, vDhtPort = 0, 0
	vTickers(2, 2)
	ctx := context.Background()
	go func() {
		t.run(ctx)
		close(t.Deleted)
	}()
	<-t.Deleted
	vJoin()
	vReach("loop-ended")
	if tr.calls > 0 {
		vReach("tracker-contacted")
	}
	if vDhtCalls > 0 {
		vReach("dht-announced")
	}
	vAssert(vImp(tr.calls > 0, t.useTrackers), "the periodic loop contacts a tracker only while tracker use is enabled")
	vAssert(vImp(tr.calls > 0 && t.proxy != "", tr.port4 == 0 && tr.port6 == 0), "the periodic loop reveals no port to a tracker when proxied")
	vAssert(vImp(vDhtCalls > 0, t.dhtMode > config.DhtNone), "the periodic loop announces to the DHT only when the mode is not 'none'")
	vAssert(vImp(vDhtPort != 0, t.dhtMode >= config.DhtNormal && t.proxy == ""), "the periodic loop advertises a port only in 'normal' mode without a proxy")
}
