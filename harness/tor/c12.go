//go:build verif

package tor

import "github.com/jech/storrent/hash"

var vHaveNames = []string{"have0", "have1", "have2", "have3"}

// vMetaTorrent builds, with the real code, an assembly state for a metadata of `size`
// bytes in which an arbitrary subset of blocks is already present with arbitrary content.
func vMetaTorrent() (*Torrent, uint32) {
	h := hash.Hash(vBytes("hash", 20))
	vAssume(len(h) == 20)
	t := &Torrent{Hash: h}
	if vBool("resized") {
		// the size guess has changed once already (peers disagree on the metadata size)
		size0 := vU32("size0")
		vAssume(size0 >= 1 && size0 <= 3*16384+77)
		vAssume(resizeMetadata(t, size0) == nil)
	}
	size := vU32("size")
	vAssume(size >= 1 && size <= 3*16384+77)
	vAssume(resizeMetadata(t, size) == nil)
	vHavocBytes(t.Info, "info0")
	nb := len(t.infoRequested)
	for i := 0; i < nb && i < 4; i++ {
		if vBool(vHaveNames[i]) {
			t.infoBitmap.Set(i)
		}
	}
	return t, size
}

// H_C12_gotMetadata_step: one metadata block with arbitrary (index, size, payload) against an
// arbitrary assembly state.
func H_C12_gotMetadata_step() {
	t, size := vMetaTorrent()
	nb := len(t.infoRequested)
	vAssert(nb == int((size+16383)/16384), "one slot per 16 KiB block")
	idx, msz := vU32("idx"), vU32("msz")
	data := vBytes("data", 16384+1)
	had := idx < 4 && int(idx) < nb && t.infoBitmap.Get(int(idx))
	done, err := gotMetadata(t, idx, msz, data) // a panic here is the violation
	if done {
		vReach("done")
		vAssert(err == nil, "done comes without error")
		vAssert(vSha1Eq(t.Info, t.Hash), "metadata accepted only if its SHA-1 is the info-hash")
		vAssert(len(t.Info) == int(size), "accepted metadata has the agreed size")
		return
	}
	vAssert(t.infoComplete == 0, "not done => torrent not usable")
	if err != nil {
		vReach("error")
		if len(t.Info) == 0 {
			vReach("reset")
			vAssert(len(t.infoBitmap) == 0 && len(t.infoRequested) == 0, "a rejected assembly is reset as a whole")
		}
		return
	}
	vReach("stored-or-duplicate")
	vAssert(msz == size, "a block is taken only for the agreed size")
	vAssert(int(idx) < nb, "a block is taken only for an existing index")
	vAssert(len(data) == 16384 || int(idx)*16384+len(data) == int(size), "only the admissible block lengths")
	vAssert(len(t.Info) == int(size), "assembly buffer keeps its size")
	if !had {
		vReach("stored")
		vAssert(t.infoBitmap.Get(int(idx)), "stored block is marked")
		j := vInt("j")
		if j >= 0 && j < len(data) && int(idx)*16384+j < int(size) {
			vAssert(t.Info[int(idx)*16384+j] == data[j], "block stored at index*16384")
		}
	}
}

// H_C12_vote_guess: size votes: any vote sequence (<= 3 votes) never panics; the guess is one
// of the voted sizes and within the cap; resize to the guess succeeds.
func H_C12_vote_guess() {
	t := &Torrent{}
	n := vChoose("votes", 0, 3)
	sizes := []uint32{vU32("v0"), vU32("v1"), vU32("v2")}
	okv := 0
	for i := 0; i < n; i++ {
		if metadataVote(t, sizes[i]) == nil {
			okv++
			vAssert(sizes[i] >= 1 && sizes[i] <= 128*1024*1024, "votes outside (0, 128 MiB] are refused")
		}
	}
	g := metadataGuess(t)
	if okv == 0 {
		vReach("no-votes")
		vAssert(g == 0, "no accepted vote, no guess")
		return
	}
	vReach("guess")
	vAssert(g >= 1 && g <= 128*1024*1024, "guess within the cap")
	vAssert((n > 0 && g == sizes[0]) || (n > 1 && g == sizes[1]) || (n > 2 && g == sizes[2]), "guess is a voted size")
}

// H_C12_honest_completion: from the empty assembly, the honest block for every index, in any
// order (<= 3 blocks, one duplicate delivery allowed), completes the metadata - provided the
// info dictionary itself is acceptable (MetadataComplete is C13's subject and is cut here).
func H_C12_honest_completion() {
	h := hash.Hash(vBytes("hash", 20))
	vAssume(len(h) == 20)
	t := &Torrent{Hash: h}
	size := vU32("size")
	nblocks := vParam("blocks")
	vAssume(size >= 1 && int((size+16383)/16384) == nblocks)
	truth := vBytes("truth", 3*16384)
	vAssume(len(truth) == int(size))
	vAssume(vSha1Eq(truth, h))
	vAssume(resizeMetadata(t, size) == nil)
	delivered := 0
	var done bool
	steps := nblocks + 1
	seen := [3]bool{}
	for s := 0; s < steps && !done; s++ {
		i := vChoose("order", 0, nblocks-1)
		lo := i * 16384
		hi := lo + 16384
		if hi > int(size) {
			hi = int(size)
		}
		var err error
		done, err = gotMetadata(t, uint32(i), size, truth[lo:hi])
		if !seen[i] {
			seen[i] = true
			delivered++
		}
		if done {
			vReach("completed")
			vAssert(err == nil, "honest completion has no error")
		} else if err != nil {
			// only the (cut) validation of the info dictionary may refuse honest metadata
			vReach("refused-by-validation")
			vAssert(delivered == nblocks, "honest blocks are refused at most by the final validation")
			return
		}
	}
	if delivered == nblocks {
		vAssert(done, "every honest block delivered => complete")
	}
}

// H_C12_gotMetadata_wellformed: as the step harness, but the validation of the info dictionary
// is NOT cut: whatever bytes are assembled decode to a well-formed single-file info dictionary
// (the decoder yields the value registered here), so that the only thing standing between a
// forged dictionary and a usable torrent is the SHA-1 comparison.
func H_C12_gotMetadata_wellformed() {
	t, size := vMetaTorrent()
	info := BInfo{Name: "x", PieceLength: 16384, Pieces: make([]byte, 20), Length: 100}
	_ = vBencode(&info)
	idx, msz := vU32("idx"), vU32("msz")
	data := vBytes("data", 16384+1)
	done, err := gotMetadata(t, idx, msz, data)
	if done {
		vReach("done")
		vAssert(err == nil, "done comes without error")
		vAssert(vSha1Eq(t.Info, t.Hash), "metadata accepted only if its SHA-1 is the info-hash")
		vAssert(t.infoComplete == 1 && len(t.Info) == int(size), "accepted metadata is installed")
		return
	}
	vReach("not-done")
	vAssert(t.infoComplete == 0, "forged or incomplete metadata never makes the torrent usable")
	vAssert(len(t.PieceHashes) == 0 && t.Pieces.Num() == 0 && len(t.inFlight) == 0, "no geometry is installed from unauthenticated metadata")
}
