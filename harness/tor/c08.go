//go:build verif

package tor

import (
	"context"
	"net"
	"net/netip"

	"github.com/jech/storrent/crypto"
	"github.com/jech/storrent/protocol"
)

// ---- C08: the dialling side's fall-back between the encrypted and the plain handshake ----

var vClientModes []bool

// vClient stands in for tor.Client: it records the kind of handshake attempted and fails with a
// bad handshake (what makes DialClient try the other kind), another error, or succeeds.
func vClient(conn net.Conn, t *Torrent, addr netip.AddrPort, proxy string, cryptoHandshake bool, o *crypto.Options) error {
	vClientModes = append(vClientModes, cryptoHandshake)
	k := len(vClientModes) - 1
	if k > 3 {
		k = 3
	}
	switch vChoose([]string{"outcome0", "outcome1", "outcome2", "outcome3"}[k], 0, 2) {
	case 0:
		return nil
	case 1:
		return protocol.ErrBadHandshake
	}
	return ErrTorrentDead
}
func vDial(d *net.Dialer, ctx context.Context, network, address string) (net.Conn, error) {
	if vBool("dial-fails") {
		return nil, ErrMartianAddress
	}
	return &vInConn{}, nil
}

// H_C08_dial: tor.DialClient's fall-back automaton under the three policies the program uses
// (crypto.DefaultOptions: default, prefer, force) and under every combination of the six option
// bits: a plain handshake is never attempted when the crypto handshake is forced, a crypto
// handshake never when it is not allowed (order and number of attempts are the implementation's
// business; non-termination would show as an exceeded loop bound).
func H_C08_dial() {
	t := vLiveTorrent()
	var o *crypto.Options
	switch vParam("opts") {
	case 0:
		o = crypto.DefaultOptions(false, false)
	case 1:
		o = crypto.DefaultOptions(true, false)
	case 2:
		o = crypto.DefaultOptions(true, true)
	default:
		o = &crypto.Options{AllowCryptoHandshake: vBool("o.allowH"), PreferCryptoHandshake: vBool("o.preferH"), ForceCryptoHandshake: vBool("o.forceH"),
			AllowEncryption: vBool("o.allowE"), PreferEncryption: vBool("o.preferE"), ForceEncryption: vBool("o.forceE")}
		// a coherent policy: forcing implies preferring implies allowing
		vAssume(vImp(o.ForceCryptoHandshake, o.PreferCryptoHandshake) && vImp(o.PreferCryptoHandshake, o.AllowCryptoHandshake))
	}
	vClientModes = nil
	addr := netip.AddrPortFrom(netip.AddrFrom4([4]byte{8, 8, 8, 8}), 6881)
	DialClient(vLiveContext(), t, addr, o)
	vReach("dialled")
	for _, m := range vClientModes {
		vAssert(vImp(o.ForceCryptoHandshake, m), "a forced crypto handshake is never replaced by a plain one")
		vAssert(vImp(!o.AllowCryptoHandshake, !m), "a crypto handshake is never attempted when it is not allowed")
	}
	if len(vClientModes) > 1 {
		vReach("fell-back")
	}
}
