//go:build verif

package tor

import (
	"context"
	"net/netip"

	"github.com/jech/storrent/hash"
	"github.com/jech/storrent/known"
	"github.com/jech/storrent/peer"
	"github.com/jech/storrent/protocol"
)

func vLiveTorrent() *Torrent {
	t := &Torrent{Hash: hash.Hash(make([]byte, 20)), requested: Requested{pieces: make(map[uint32]*RequestedPiece)}, known: make(known.Peers)}
	t.Pieces.MetadataComplete(16384, 2*16384)
	t.PieceHashes = []hash.Hash{make([]byte, 20), make([]byte, 20)}
	t.inFlight = make([]uint8, 2)
	t.infoComplete = 1
	t.Event = make(chan peer.TorEvent, 512)
	t.Done = make(chan struct{})
	t.Deleted = make(chan struct{})
	return t
}

// H_C17_api: ONE exported blocking operation (parameter op) runs against the REAL event loop
// Torrent.run, whose context may be cancelled at any point: the loop can stop before it takes
// the operation's event, with the event still queued, or after answering it; every schedule
// with <= `preempt` pre-emptions. The operation must return in every case (a state in which
// the caller can never proceed is reported as 'blocked'): with a result, or with an error
// once the torrent is dead.
func H_C17_api() {
	t := vLiveTorrent()
	ctx := context.Background()
	go func() {
		t.run(ctx)
		close(t.Deleted)
	}()
	var err error
	switch vParam("op") {
	case 0:
		_, err = t.GetStats()
	case 1:
		_, err = t.GetAvailable()
	case 2:
		_, err = t.DropPeer()
	case 3:
		_, err = t.GetPeer(hash.Hash(make([]byte, 20)))
	case 4:
		_, err = t.GetPeers()
	case 5:
		_, err = t.GetKnown(nil, netip.AddrPort{})
	case 6:
		_, err = t.GetKnowns()
	case 7:
		err = t.Have(0, true)
	case 8:
		_, err = t.GetConf()
	case 9:
		err = t.SetConf(peer.TorConf{})
	case 10:
		_, _, err = t.Request(0, 1, true, true)
	case 11:
		_, _, err = t.Request(1, 1, true, false)
	case 12:
		_, _, err = t.Request(0, 1, false, false)
	case 13:
		err = t.BadPeer(5, true)
	case 14:
		err = t.AddKnown(netip.AddrPort{}, nil, "", known.Seen)
	case 15:
		err = t.Kill(context.Background())
	}
	if err != nil {
		vReach("error")
	} else {
		vReach("answered")
	}
}

// H_C17_dying_peer: a peer goroutine (the real peer.Run) is told to go away while the torrent is
// ALIVE, the torrent's event queue is full, and the torrent's loop is in the middle of writing
// two events to that very peer (the real writePeer; the peer's queue fills up). The peer must
// release the torrent (declare itself done) before it needs the torrent to take its final
// events - otherwise the two wait for each other for ever and every later operation on the
// torrent hangs. Every schedule within the pre-emption bound; a state in which nobody can move
// is reported as 'blocked'.
func H_C17_dying_peer() {
	t := vLiveTorrent()
	tev := make(chan peer.TorEvent, 2)
	tev <- peer.TorGoAway{}
	tev <- peer.TorGoAway{}
	torDone := make(chan struct{})
	p := peer.VNewPeer(&t.Pieces, tev)
	p.Event <- peer.PeerDone{}
	p.Event <- peer.PeerInterested{Interested: true}
	p.Event <- peer.PeerInterested{Interested: true}
	p.Event <- peer.PeerInterested{Interested: true}
	exited := make(chan struct{})
	go func() {
		peer.VRunLive(p, tev, torDone)
		close(exited)
	}()
	// the torrent's loop: two events for this peer, then back to serving its own queue
	writePeer(p, peer.PeerInterested{Interested: true})
	writePeer(p, peer.PeerInterested{Interested: true})
	for {
		select {
		case <-tev:
		case <-exited:
			vReach("peer-exited")
			return
		}
	}
}

// H_C17_kill: a torrent started by the REAL AddTorrent (its loop and its deletion sequence run as
// goroutines) is killed: when Kill reports success deletion is complete - the torrent is no
// longer listed, its loop has stopped, Deleted is closed - in every schedule within the bound.
func H_C17_kill() {
	t := vLiveTorrent()
	t.Hash = hash.Hash([]byte{7, 1, 2, 3, 4, 5, 6, 7, 8, 9, 10, 11, 12, 13, 14, 15, 16, 17, 18, 19})
	del(t.Hash)
	_, err := AddTorrent(vLiveContext(), t)
	vAssert(err == nil, "a torrent that is not yet known is added")
	vAssert(Get(t.Hash) == t, "a started torrent is listed")
	err = t.Kill(vLiveContext())
	vAssert(err == nil, "killing a live torrent succeeds")
	vReach("killed")
	vAssert(vClosed(t.Done), "after Kill the torrent's loop has stopped")
	vAssert(vClosed(t.Deleted), "after Kill deletion is complete")
	vAssert(Get(t.Hash) == nil, "after Kill the torrent is no longer listed")
	_, err = t.GetStats()
	vAssert(err == ErrTorrentDead, "operations on a killed torrent fail with 'torrent is dead'")
}

// H_C17_newpeer: a connection handed to a torrent that is already dead (its loop has stopped, its
// event queue still has room): the connection must not be left open with nobody to serve it.
func H_C17_newpeer() {
	t := vLiveTorrent()
	close(t.Done)
	conn := &vInConn{}
	id := make([]byte, 20)
	err := t.NewPeer("", conn, netip.AddrPort{}, true, protocol.HandshakeResult{Hash: t.Hash, Id: id}, nil)
	vReach("returned")
	vAssert(err != nil && conn.closed, "a connection handed to a dead torrent is refused and closed")
}

// H_C20_getbyname: the lookup the FUSE root uses: with two torrents registered (names of <= 2
// symbolic bytes, hashes differing in a symbolic first byte), GetByName(name) returns nil exactly
// when no torrent has that name, and otherwise a listed torrent with that name.
func H_C20_getbyname() {
	h0 := hash.Hash([]byte{vU8("hb0"), 1, 2, 3, 4, 5, 6, 7, 8, 9, 10, 11, 12, 13, 14, 15, 16, 17, 18, 19})
	h1 := hash.Hash([]byte{vU8("hb1"), 1, 2, 3, 4, 5, 6, 7, 8, 9, 10, 11, 12, 13, 14, 15, 16, 17, 18, 19})
	vAssume(h0[0] != h1[0])
	t0 := VRegister(h0, vString("n0", 2), nil, 100)
	t1 := VRegister(h1, vString("n1", 2), nil, 100)
	name := vString("name", 2)
	t := GetByName(name)
	m0, m1 := t0.Name == name, t1.Name == name
	if t == nil {
		vReach("absent")
		vAssert(!m0 && !m1, "a name that some torrent has resolves")
	} else {
		vReach("found")
		vAssert(t.Name == name, "a lookup resolves only to a torrent with that name")
		vAssert(t == t0 || t == t1, "a lookup resolves to a listed torrent")
		if m0 && m1 {
			vReach("ambiguous")
			// which of the two is chosen is the implementation's business (today: the smaller hash)
		}
	}
	del(h0)
	del(h1)
}
