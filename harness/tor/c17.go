//go:build verif

package tor

import (
	"context"
	"net/netip"

	"github.com/jech/storrent/hash"
	"github.com/jech/storrent/known"
	"github.com/jech/storrent/peer"
)

func vLiveTorrent() *Torrent {
	t := &Torrent{Hash: hash.Hash(make([]byte, 20)), requested: Requested{pieces: make(map[uint32]*RequestedPiece)}, known: make(known.Peers)}
	t.Pieces.MetadataComplete(16384, 2*16384)
	t.PieceHashes = []hash.Hash{make([]byte, 20), make([]byte, 20)}
	t.inFlight = make([]uint8, 2)
	t.infoComplete = 1
	t.Event = make(chan peer.TorEvent, 512)
	t.Done = make(chan struct{})
	t.Deleted = make(chan struct{})
	return t
}

// H_C17_api: ONE exported blocking operation (parameter op) runs against the REAL event loop
// Torrent.run, whose context may be cancelled at any point: the loop can stop before it takes
// the operation's event, with the event still queued, or after answering it; every schedule
// with <= `preempt` pre-emptions. The operation must return in every case (a state in which
// the caller can never proceed is reported as 'blocked'): with a result, or with an error
// once the torrent is dead.
func H_C17_api() {
	t := vLiveTorrent()
	ctx := context.Background()
	go func() {
		t.run(ctx)
		close(t.Deleted)
	}()
	var err error
	switch vParam("op") {
	case 0:
		_, err = t.GetStats()
	case 1:
		_, err = t.GetAvailable()
	case 2:
		_, err = t.DropPeer()
	case 3:
		_, err = t.GetPeer(hash.Hash(make([]byte, 20)))
	case 4:
		_, err = t.GetPeers()
	case 5:
		_, err = t.GetKnown(nil, netip.AddrPort{})
	case 6:
		_, err = t.GetKnowns()
	case 7:
		err = t.Have(0, true)
	case 8:
		_, err = t.GetConf()
	case 9:
		err = t.SetConf(peer.TorConf{})
	case 10:
		_, _, err = t.Request(0, 1, true, true)
	case 11:
		_, _, err = t.Request(1, 1, true, false)
	case 12:
		_, _, err = t.Request(0, 1, false, false)
	case 13:
		err = t.BadPeer(5, true)
	case 14:
		err = t.AddKnown(netip.AddrPort{}, nil, "", known.Seen)
	case 15:
		err = t.Kill(context.Background())
	}
	if err != nil {
		vReach("error")
	} else {
		vReach("answered")
	}
}
