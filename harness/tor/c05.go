//go:build verif

package tor

import (
	"context"
	"math/rand/v2"
	"net/netip"

	"github.com/jech/storrent/config"

	"github.com/jech/storrent/hash"
	"github.com/jech/storrent/peer"
	"github.com/jech/storrent/pex"
	"github.com/jech/storrent/protocol"
)

func vAddr(k int) netip.AddrPort {
	return netip.AddrPortFrom(netip.AddrFrom4([4]byte{192, 0, 2, vU8([]string{"ip0", "ip1"}[k])}), vU16([]string{"port0", "port1"}[k]))
}

// vMessage builds message number `kind` with every field symbolic.
func vMessage(kind int) (protocol.Message, int) {
	switch kind {
	case 0:
		return protocol.Error{Error: ErrTorrentDead}, 0
	case 1:
		return protocol.KeepAlive{}, 0
	case 2:
		return protocol.Choke{}, 1
	case 3:
		return protocol.Unchoke{}, 1
	case 4:
		return protocol.Interested{}, 1
	case 5:
		return protocol.NotInterested{}, 1
	case 6:
		return protocol.Have{Index: vU32("mi")}, 5
	case 7:
		b := vBytes("bf", 1)
		for k := 0; k < 8; k++ {
			vAssume(vImp(k >= vParam("maxp")+1, !peer.VGet(b, k)))
		}
		return protocol.Bitfield{Bitfield: b}, 1 + len(b)
	case 8:
		return protocol.Request{Index: vU32("mi"), Begin: vU32("mb"), Length: vU32("ml")}, 13
	case 9:
		d := vBytes("md", 16384+1)
		return protocol.Piece{Index: vU32("mi"), Begin: vU32("mb"), Data: d}, 9 + len(d)
	case 10:
		return protocol.Cancel{Index: vU32("mi"), Begin: vU32("mb"), Length: vU32("ml")}, 13
	case 11:
		return protocol.Port{Port: vU16("mp")}, 3
	case 12:
		return protocol.SuggestPiece{Index: vU32("mi")}, 5
	case 13:
		return protocol.RejectRequest{Index: vU32("mi"), Begin: vU32("mb"), Length: vU32("ml")}, 13
	case 14:
		return protocol.AllowedFast{Index: vU32("mi")}, 5
	case 15:
		return protocol.HaveAll{}, 1
	case 16:
		return protocol.HaveNone{}, 1
	case 17:
		m := protocol.Extended0{Version: vString("ver", 3), Port: vU16("mp"), ReqQ: vU32("reqq"), MetadataSize: vU32("msz"),
			UploadOnly: vBool("uo"), Encrypt: vBool("enc")}
		if vBool("hasmsgs") {
			m.Messages = map[string]uint8{"ut_pex": vU8("e1"), "ut_metadata": vU8("e2"), "lt_donthave": vU8("e3")}
		}
		if vBool("hasv4") {
			m.IPv4 = vAddr(0).Addr()
		}
		return m, 64
	case 18:
		var a, d []pex.Peer
		if vBool("add") {
			a = []pex.Peer{{Addr: vAddr(0), Flags: vU8("fl0")}}
		}
		if vBool("drop") {
			d = []pex.Peer{{Addr: vAddr(1)}}
		}
		return protocol.ExtendedPex{Subtype: 1, Added: a, Dropped: d}, 64
	case 19:
		d := vBytes("md", 16384+1)
		return protocol.ExtendedMetadata{Subtype: 2, Type: vU8("mt"), Piece: vU32("mi"), TotalSize: vU32("msz"), Data: d}, 32 + len(d)
	case 20:
		return protocol.ExtendedDontHave{Subtype: 3, Index: vU32("mi")}, 6
	case 21:
		return protocol.ExtendedUploadOnly{Subtype: 4, Value: vBool("uo")}, 3
	case 22:
		return protocol.ExtendedUnknown{Subtype: vU8("sub")}, 2
	}
	return protocol.Unknown{}, 1
}

// H_C05_msg: ONE message of kind `msg` (all field values symbolic) handled by the real
// peer.handleMessage in an arbitrary capability / metadata / choke state, then every event it
// gave rise to handled by the real tor.handleEvent: terminates, never panics, returns an error
// at worst, and allocates in proportion to the message (not to its numeric fields).
func H_C05_msg() {
	kind := vParam("msg")
	known := vParam("info") == 1
	t := &Torrent{Hash: make([]byte, 20), requested: Requested{pieces: make(map[uint32]*RequestedPiece)}}
	t.Event = make(chan peer.TorEvent, 512)
	t.Done = make(chan struct{})
	if known {
		total := vI64("total")
		vAssume(total >= 1 && total <= int64(vParam("maxp"))*16384)
		t.Pieces.MetadataComplete(16384, total)
		t.inFlight = make([]uint8, (total+16383)/16384)
		t.PieceHashes = make([]hash.Hash, t.Pieces.Num())
		t.Info = []byte{'d', 'e'}
		t.infoComplete = 1
	}
	p := peer.VNewPeer(&t.Pieces, t.Event)
	t.peers = []*peer.Peer{p}
	if known {
		peer.VSetInfo(p, vBytes("pinfo", 2*16384))
		pb := vBytes("pb", 1)
		for k := 0; k < 8; k++ {
			vAssume(vImp(k >= t.Pieces.Num(), !peer.VGet(pb, k)))
		}
		peer.VSetBitmap(p, pb)
		if vBool("pending") {
			c := vU32("c")
			vAssume(int(c) < len(t.inFlight))
			ci, _ := peer.VFromChunk(p, c)
			vAssume(peer.VHas(p, int(ci)))
			vAssume(peer.VMakeOutstanding(p, c))
		}
		un := uint32(vChoose("unchoking", 0, 1))
		peer.VSetUploadState(p, uint32(vChoose("interested", 0, 1)), un, 0)
		if un == 1 && vBool("queued") {
			peer.VAddRequested(p, vU32("qi"), vU32("qb"), vU32("ql"))
		}
	} else {
		peer.VSetInfo(p, nil)
		peer.VSetSeed(p, vBool("seed"))
		if vBool("hasbitmap") {
			pb := vBytes("pb", 1)
			for k := 0; k < 8; k++ {
				vAssume(vImp(k >= vParam("maxp"), !peer.VGet(pb, k)))
			}
			peer.VSetBitmap(p, pb)
		}
	}
	peer.VSetFast(p, vBool("fast"))
	peer.VSetUnchoked(p, uint32(vChoose("unchoked", 0, 1)))
	peer.VSetExt(p, uint32(vU8("x1")), uint32(vU8("x2")), uint32(vU8("x3")))
	peer.VSetPort(p, uint32(vU16("pport")))
	peer.VFillWriter(p, vParam("fill"))
	m, size := vMessage(kind)
	vAllocMark()
	err := peer.VHandleMessage(p, m) // a panic is the violation
	if err != nil {
		vReach("error")
	} else {
		vReach("handled")
	}
	// everything the message gave rise to, on the torrent side
	vDrain(t)
	if vParam("exit") == 1 {
		// "at worst disconnects that one peer": the peer then goes away (the real exit path of
		// peer.Run, which checks its own bookkeeping and panics if it is inconsistent), and the
		// torrent handles what the exit path emits
		peer.VRunExit(p, t.Event)
		vDrain(t)
		vReach("disconnected")
	}
	bound := 64 + 16*size + 64
	a := vMaxAlloc()
	if kind == 19 || kind == 17 {
		// the metadata assembly buffer: capped at 128 MiB + its request table
		vAssert(a <= 128*1024*1024+16*1024, "ghost: allocation within the metadata cap")
	} else if !known && (kind == 6 || kind == 7 || kind == 20) {
		vAssert(a <= bound, "ghost: allocation proportional to the message (advertisement before metadata)")
	} else if kind == 8 {
		vAssert(a <= bound, "ghost: allocation proportional to the message (request length)")
	} else {
		vAssert(a <= bound, "ghost: allocation proportional to the message")
	}
}

var vMeta2Names = [][]string{{"s0", "i0", "d0"}, {"s1", "i1", "d1"}}

// H_C05_meta2: two metadata data messages in sequence (as events, through the real
// tor.handleEvent) against an arbitrary assembly state - sequences matter here because a
// rejected assembly is reset between the two.
func H_C05_meta2() {
	t, _ := vMetaTorrent()
	t.Event = make(chan peer.TorEvent, 512)
	t.Done = make(chan struct{})
	p := peer.VNewPeer(&t.Pieces, t.Event)
	peer.VSetInfo(p, nil)
	t.peers = []*peer.Peer{p}
	ctx := context.Background()
	for s := 0; s < 2; s++ {
		e := peer.TorMetaData{Peer: p, Size: vU32(vMeta2Names[s][0]), Index: vU32(vMeta2Names[s][1]), Data: vBytes(vMeta2Names[s][2], 16384+1)}
		err := handleEvent(ctx, t, e) // a panic is the violation
		vAssert(err == nil, "a metadata message never stops the torrent")
	}
	vReach("both-handled")
}

// the torrent's synchronous queries of a peer, answered by the peer's REAL event handler
func vGetFast(p *peer.Peer) []uint32 {
	ch := make(chan []uint32, 1)
	peer.VHandleEvent(p, peer.PeerGetFast{Ch: ch})
	return <-ch
}
func vGetHave(p *peer.Peer, index uint32) bool {
	ch := make(chan bool, 1)
	peer.VHandleEvent(p, peer.PeerGetHave{Index: index, Ch: ch})
	return <-ch
}

// H_C05_idle_fast: what a message leaves behind in the peer is consumed later by the torrent's
// scheduler: a fast-capable peer sends AllowedFast with ANY index (and has advertised any
// pieces); then the idle prefetcher picks pieces (real pickIdlePieces, the peer's fast list and
// bitmap read through the peer's real event handler): it must not crash.
func H_C05_idle_fast() {
	t := vLiveTorrent()
	config.MemoryMark = 1 << 30
	t.rand = rand.New(rand.NewPCG(1, 2))
	p := peer.VNewPeer(&t.Pieces, t.Event)
	peer.VSetFast(p, vBool("fast"))
	pb := vBytes("pb", 1)
	for k := 0; k < 8; k++ {
		vAssume(vImp(k >= t.Pieces.Num(), !peer.VGet(pb, k)))
	}
	peer.VSetBitmap(p, pb)
	t.peers = []*peer.Peer{p}
	err := peer.VHandleMessage(p, protocol.AllowedFast{Index: vU32("mi")})
	if err != nil {
		vReach("refused")
		return
	}
	vDrain(t)
	pickIdlePieces(t, vChoose("count", 1, 2)) // a panic is the violation
	vReach("picked")
}
