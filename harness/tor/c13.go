//go:build verif

package tor

import (
	"strings"

	"github.com/jech/storrent/hash"
	"github.com/jech/storrent/path"
	"github.com/jech/storrent/tracker"
	"github.com/jech/storrent/webseed"
)

var vFileNames = [][]string{
	{"f0.len", "f0.path", "f0.path8", "f0.attr", "f0.hasp", "f0.hasp8"},
	{"f1.len", "f1.path", "f1.path8", "f1.attr", "f1.hasp", "f1.hasp8"},
	{"f2.len", "f2.path", "f2.path8", "f2.attr", "f2.hasp", "f2.hasp8"},
}

func vBFile(i int) BFile {
	n := vFileNames[i]
	f := BFile{Length: vI64(n[0]), Attr: vString(n[3], 2)}
	if vBool(n[4]) {
		f.Path = path.Path{vString(n[1], 2)}
	}
	if vBool(n[5]) {
		f.Path8 = path.Path{vString(n[2], 2)}
	}
	return f
}

// H_C13_MetadataComplete: the info dictionary is an arbitrary value of its type (what any
// byte string can decode to). Parameter pl: -1 = any piece length that is not a multiple of
// 16 KiB (symbolic), -2 = k*2^32 + {0, 16 KiB} for k = 0..2 (truncated to the field's width), otherwise the constant piece length. Parameter files: -1 = no file list.
func H_C13_MetadataComplete() { vC13(vParam("files")) }

// H_C13_MetadataComplete_emptylist: the same with a present but empty file list (engine only:
// the native encoder omits an empty list, so the native run would take the no-list path).
func H_C13_MetadataComplete_emptylist() { vC13(0) }

func vC13(nf int) {
	var info BInfo
	info.Name = vString("name", 2)
	info.Name8 = vString("name8", 2)
	// (set through a generic helper, so that the harness still compiles if the field's integer
	// type is changed)
	if pl := vParam("pl"); pl == -1 {
		x := vU32("piecelength")
		vAssume(x%16384 != 0)
		vSetInt(&info.PieceLength, uint64(x))
	} else if pl == -2 {
		// values around the 32-bit boundary, whatever the width of the field: k*2^32 + {0, 16 KiB}
		vSetInt(&info.PieceLength, uint64(vChoose("plhi", 0, 2))<<32+uint64(vChoose("pllo", 0, 1))*16384)
	} else {
		vSetInt(&info.PieceLength, uint64(pl))
	}
	info.Pieces = vBytes("pieces", 3*20+19)
	info.Length = vI64("length")
	if nf >= 0 {
		info.Files = make([]BFile, 0, nf)
		for i := 0; i < nf; i++ {
			info.Files = append(info.Files, vBFile(i))
		}
	}
	t := &Torrent{Hash: hash.Hash(make([]byte, 20))}
	t.Info = vBencode(&info)
	err := t.MetadataComplete() // any panic is the violation (division by zero, absurd make)
	if err != nil {
		vReach("rejected")
		vAssert(t.infoComplete == 0, "a rejected info dictionary leaves the torrent unusable")
		return
	}
	vReach("accepted")
	ps := t.Pieces.PieceSize()
	L := t.Pieces.Length()
	vAssert(t.infoComplete == 1, "accepted => metadata complete")
	vAssert(ps > 0 && ps%16384 == 0, "piece length positive and a multiple of 16 KiB")
	vAssert(L >= 0, "total length not negative")
	vAssert(t.Name != "", "name not empty")
	vAssert(int64(len(t.inFlight)) == (L+16383)/16384, "one bookkeeping slot per 16 KiB block")
	if ps > 0 {
		np := (L + int64(ps) - 1) / int64(ps)
		vAssert(int64(t.Pieces.Num()) == np, "piece table matches the length")
		vAssert(int64(len(t.PieceHashes)) == np, "one hash per piece")
	}
	if nf >= 0 {
		vReach("multi-file")
		vAssert(len(t.Files) == nf, "every listed file is kept")
		sum := int64(0)
		for i := 0; i < len(t.Files); i++ {
			vAssert(t.Files[i].Length >= 0, "file length not negative")
			vAssert(t.Files[i].Offset == sum, "files laid out contiguously from 0")
			vAssert(sum+t.Files[i].Length >= sum, "no overflow in the layout")
			sum += t.Files[i].Length
			vAssert(len(t.Files[i].Path) > 0, "file has a path")
			// BEP 47: a padding file is one whose attribute string contains 'p' (next to any other flag)
			hasP := strings.Contains(info.Files[i].Attr, "p")
			vAssert(t.Files[i].Padding == hasP, "a file is padding exactly when its attributes contain 'p'")
		}
		vAssert(sum == L, "files sum to the total length")
	} else {
		vReach("single-file")
		vAssert(len(t.Files) == 0 && L == info.Length, "single file: total is the declared length")
	}
}

var vTrackerURLs = [][]string{{"t00", "t01"}, {"t10", "t11"}}

func vSameStrings(a, b []string) bool {
	if len(a) != len(b) {
		return false
	}
	for i := range a {
		if a[i] != b[i] {
			return false
		}
	}
	return true
}

// H_C13_WriteTorrent: the .torrent file served back. The value handed to the bencode encoder,
// read back the way ReadTorrent reads it, has the same info bytes, tracker tiers and web seeds
// (<= 2 tiers of <= 2 trackers, <= 2 GetRight and <= 1 Hoffman seeds).
func H_C13_WriteTorrent() {
	t := &Torrent{Info: vBytes("info", 8), CreationDate: vI64("cdate")}
	nt := vChoose("tiers", 0, 2)
	var want [][]string
	for i := 0; i < nt; i++ {
		n := vChoose(vTrackerURLs[i][0]+".n", 0, 2)
		var tier []tracker.Tracker
		var urls []string
		for j := 0; j < n; j++ {
			tier = append(tier, tracker.VNew(vTrackerURLs[i][j], vChoose("kind", 0, 1)))
			urls = append(urls, vTrackerURLs[i][j])
		}
		t.trackers = append(t.trackers, tier)
		want = append(want, urls)
	}
	var wantGR, wantH []string
	ngr := vChoose("getright", 0, 2)
	for j := 0; j < ngr; j++ {
		u := []string{"g0", "g1"}[j]
		t.webseeds = append(t.webseeds, webseed.VNew(u, true))
		wantGR = append(wantGR, u)
	}
	if vChoose("hoffman", 0, 1) == 1 {
		t.webseeds = append(t.webseeds, webseed.VNew("h0", false))
		wantH = append(wantH, "h0")
	}
	err := WriteTorrent(nil, t)
	if err != nil {
		vReach("encode-error")
		return
	}
	bt, ok := vLastEncoded().(*BTorrent)
	vAssert(ok, "a BTorrent is encoded")
	if !ok {
		return
	}
	vReach("written")
	vAssert(len(bt.Info) == len(t.Info) && bt.CreationDate == t.CreationDate, "info dictionary passed on unchanged (length)")
	j := vInt("j")
	if j >= 0 && j < len(bt.Info) {
		vAssert(bt.Info[j] == t.Info[j], "info dictionary passed on unchanged (bytes)")
	}
	// read back as ReadTorrent does
	var got [][]string
	if bt.AnnounceList != nil {
		got = bt.AnnounceList
	} else if bt.Announce != "" {
		got = [][]string{{bt.Announce}}
	}
	same := len(got) == len(want)
	for i := 0; same && i < len(want); i++ {
		same = vSameStrings(got[i], want[i])
	}
	vAssert(same, "trackers: the same tiers with the same URLs in the same order")
	vAssert(vSameStrings([]string(bt.URLList), wantGR), "GetRight web seeds preserved")
	vAssert(vSameStrings([]string(bt.HTTPSeeds), wantH), "Hoffman web seeds preserved")
}

// H_C13_ReadTorrent: data flow of ReadTorrent under the decoder stub: the info-hash is the SHA-1
// of exactly the raw info bytes the decoder delivered, and those bytes are what the torrent keeps.
func H_C13_ReadTorrent() {
	raw := vBytes("rawinfo", 40)
	bt := BTorrent{Info: raw, CreationDate: vI64("cdate")}
	if vBool("has-announce") {
		bt.Announce = "tr"
	}
	info := BInfo{Name: "x", PieceLength: 16384, Pieces: make([]byte, 20), Length: 100}
	_ = vBencode(&info)
	_ = vBencode(&bt)
	t, err := ReadTorrent("", nil)
	if err != nil {
		return
	}
	vReach("read")
	vAssert(t != nil, "success yields a torrent")
	vAssert(vSha1Eq(raw, t.Hash), "info-hash is the SHA-1 of the info dictionary as it appears in the input")
	vAssert(len(t.Info) == len(raw) && t.CreationDate == bt.CreationDate, "raw info kept")
	j := vInt("j")
	if j >= 0 && j < len(raw) {
		vAssert(t.Info[j] == raw[j], "raw info kept byte for byte")
	}
	vAssert(len(t.trackers) <= 1, "at most the announced tracker")
}

func vSetInt[T ~uint32 | ~int64 | ~uint64 | ~int | ~int32](p *T, v uint64) { *p = T(v) }
