//go:build verif

package tor

import (
	"github.com/jech/storrent/hash"
	"github.com/jech/storrent/path"
)

var vFileNames = [][]string{
	{"f0.len", "f0.path", "f0.path8", "f0.attr", "f0.hasp", "f0.hasp8"},
	{"f1.len", "f1.path", "f1.path8", "f1.attr", "f1.hasp", "f1.hasp8"},
	{"f2.len", "f2.path", "f2.path8", "f2.attr", "f2.hasp", "f2.hasp8"},
}

func vBFile(i int) BFile {
	n := vFileNames[i]
	f := BFile{Length: vI64(n[0]), Attr: vString(n[3], 2)}
	if vBool(n[4]) {
		f.Path = path.Path{vString(n[1], 2)}
	}
	if vBool(n[5]) {
		f.Path8 = path.Path{vString(n[2], 2)}
	}
	return f
}

// H_C13_MetadataComplete: the info dictionary is an arbitrary value of its type (what any
// byte string can decode to). Parameter pl: -1 = any piece length that is not a multiple of
// 16 KiB (symbolic), otherwise the constant piece length. Parameter files: -1 = no file list.
func H_C13_MetadataComplete() { vC13(vParam("files")) }

// H_C13_MetadataComplete_emptylist: the same with a present but empty file list (engine only:
// the native encoder omits an empty list, so the native run would take the no-list path).
func H_C13_MetadataComplete_emptylist() { vC13(0) }

func vC13(nf int) {
	var info BInfo
	info.Name = vString("name", 2)
	info.Name8 = vString("name8", 2)
	if pl := vParam("pl"); pl < 0 {
		info.PieceLength = vU32("piecelength")
		vAssume(info.PieceLength%16384 != 0)
	} else {
		info.PieceLength = uint32(pl)
	}
	info.Pieces = vBytes("pieces", 3*20+19)
	info.Length = vI64("length")
	if nf >= 0 {
		info.Files = make([]BFile, 0, nf)
		for i := 0; i < nf; i++ {
			info.Files = append(info.Files, vBFile(i))
		}
	}
	t := &Torrent{Hash: hash.Hash(make([]byte, 20))}
	t.Info = vBencode(&info)
	err := t.MetadataComplete() // any panic is the violation (division by zero, absurd make)
	if err != nil {
		vReach("rejected")
		vAssert(t.infoComplete == 0, "a rejected info dictionary leaves the torrent unusable")
		return
	}
	vReach("accepted")
	ps := t.Pieces.PieceSize()
	L := t.Pieces.Length()
	vAssert(t.infoComplete == 1, "accepted => metadata complete")
	vAssert(ps > 0 && ps%16384 == 0, "piece length positive and a multiple of 16 KiB")
	vAssert(L >= 0, "total length not negative")
	vAssert(t.Name != "", "name not empty")
	vAssert(int64(len(t.inFlight)) == (L+16383)/16384, "one bookkeeping slot per 16 KiB block")
	if ps > 0 {
		np := (L + int64(ps) - 1) / int64(ps)
		vAssert(int64(t.Pieces.Num()) == np, "piece table matches the length")
		vAssert(int64(len(t.PieceHashes)) == np, "one hash per piece")
	}
	if nf >= 0 {
		vReach("multi-file")
		vAssert(len(t.Files) == nf, "every listed file is kept")
		sum := int64(0)
		for i := 0; i < len(t.Files); i++ {
			vAssert(t.Files[i].Length >= 0, "file length not negative")
			vAssert(t.Files[i].Offset == sum, "files laid out contiguously from 0")
			vAssert(sum+t.Files[i].Length >= sum, "no overflow in the layout")
			sum += t.Files[i].Length
			vAssert(len(t.Files[i].Path) > 0, "file has a path")
		}
		vAssert(sum == L, "files sum to the total length")
	} else {
		vReach("single-file")
		vAssert(len(t.Files) == 0 && L == info.Length, "single file: total is the declared length")
	}
}
