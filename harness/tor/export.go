//go:build verif

package tor

import (
	"github.com/jech/storrent/hash"
	"github.com/jech/storrent/tracker"
	"github.com/jech/storrent/webseed"
)

// VRegister builds a torrent with complete metadata and lists it (for the front-end harnesses).
func VRegister(h hash.Hash, name string, files []Torfile, length int64) *Torrent {
	del(h)
	t := &Torrent{Hash: h, Name: name, Files: files, known: nil}
	t.Pieces.MetadataComplete(16384, length)
	t.infoComplete = 1
	add(t)
	return t
}

// VSetSources installs trackers and web seeds (unexported fields) for the front-end harnesses.
func (t *Torrent) VSetSources(tr [][]tracker.Tracker, ws []webseed.Webseed) {
	t.trackers, t.webseeds = tr, ws
}
