//go:build verif

package tor

import "github.com/jech/storrent/hash"

// VRegister builds a torrent with complete metadata and lists it (for the front-end harnesses).
func VRegister(h hash.Hash, name string, files []Torfile, length int64) *Torrent {
	del(h)
	t := &Torrent{Hash: h, Name: name, Files: files, known: nil}
	t.Pieces.MetadataComplete(16384, length)
	t.infoComplete = 1
	add(t)
	return t
}
