//go:build verif

package piece

import (
	"github.com/jech/storrent/alloc"
	"github.com/jech/storrent/hash"
	"github.com/jech/storrent/mono"
)

var vOpNames = []string{"op0", "op1", "op2", "op3"}
var vBeginNames = []string{"begin0", "begin1", "begin2", "begin3"}
var vDataNames = []string{"data0", "data1", "data2", "data3"}
var vOffNames = []string{"off0", "off1", "off2", "off3"}
var vLenNames = []string{"n0", "n1", "n2", "n3"}

// vReadCheck: one ReadAt at an arbitrary offset with an arbitrary buffer length, checked against
// the oracle: bytes come only from a piece that is complete AND whose buffer hashes to the
// metainfo hash NOW (so any modification after verification is caught), at the right offset.
func vReadCheck(ps *Pieces, psz uint32, total int64, index uint32, h hash.Hash, offName, lenName string) {
	off := vI64(offName)
	vAssume(off >= 0)
	n0 := vInt(lenName)
	vAssume(n0 >= 0 && n0 <= 3*16384)
	buf := make([]byte, n0)
	n, err := ps.ReadAt(buf, off)
	vAssert(n >= 0 && n <= len(buf), "read count within the buffer")
	if off >= total {
		vReach("read-beyond-end")
		vAssert(n == 0 && err != nil, "reading at or beyond the end is EOF")
		return
	}
	if n == 0 {
		vReach("read-nothing")
		return
	}
	vReach("read-data")
	i := uint32(off / int64(psz))
	b := int(off % int64(psz))
	vAssert(i == index, "only the piece that was filled can be readable")
	if i != index {
		return
	}
	p := &ps.pieces[i]
	vAssert(p.state == stateComplete, "data is returned only from a complete piece")
	vAssert(vLive(p.data), "data is returned only from a live buffer")
	vAssert(vSha1Eq(p.data, h), "data is returned only from a piece whose content hashes to the metainfo hash")
	vAssert(b+n <= int(ps.PieceLength(i)), "read stays inside the piece")
	j := vInt("j")
	if j >= 0 && j < n {
		vAssert(buf[j] == p.data[b+j], "bytes are returned at the offset they occupy")
	}
}

// vInv: representation invariant of one piece and the accounting, checked after every step.
func vInv(ps *Pieces, index uint32, base int64, baseCount int) {
	p := &ps.pieces[index]
	pl := ps.PieceLength(index)
	vAssert(p.state == 0 || p.state == stateComplete, "between operations a piece is incomplete or complete")
	hasData := len(p.data) > 0
	vAssert(vImp(!hasData, p.bitmap.Empty() && p.state == 0), "no buffer => no blocks, incomplete")
	vAssert(vImp(hasData, len(p.data) == int(pl) && vLive(p.data)), "buffer has the piece's length and is live")
	vAssert(vImp(p.state != 0, p.bitmap.Count() == ps.pieceChunks(index)), "complete => every block present")
	k := vInt("k")
	vAssume(k >= 0 && k < 1<<20)
	vAssert(vImp(k >= ps.pieceChunks(index), !p.bitmap.Get(k)), "no block bit beyond the piece")
	want := 0
	if hasData {
		want = 1
	}
	vAssert(ps.count == baseCount+want, "count is the number of pieces holding data")
	wantBytes := int64(0)
	if hasData {
		wantBytes = int64(cap(p.data))
	}
	vAssert(alloc.Bytes() == base+wantBytes, "allocated bytes == total size of the buffers of pieces holding data")
}

// H_C01_hist: histories of <= `steps` operations on one (any) piece of a store of symbolic
// length: AddData with arbitrary offset / payload (misaligned, beyond the piece, over-long,
// duplicate, short last block), Finalise against the metainfo hash (outcome decided by the
// content), eviction of the piece, a read; after every operation the invariant and a read at an
// arbitrary offset are checked. Parameter ps = piece size (case split).
func H_C01_hist() {
	psz := uint32(vParam("ps"))
	total := vI64("total")
	vAssume(total >= 1 && total <= int64(1)<<uint(vParam("tb")))
	ps := &Pieces{}
	ps.MetadataComplete(psz, total)
	index := vU32("index")
	vAssume(int64(index) < (total+int64(psz)-1)/int64(psz))
	pl := ps.PieceLength(index)
	vAssume(pl <= 4*16384) // <= 4 blocks in the piece under test (a full piece for ps <= 64 KiB, else the short last piece)
	h := hash.Hash(vBytes("h", 20))
	vAssume(len(h) == 20)
	base := alloc.Bytes()
	steps := vParam("steps")
	first := vParam("first")
	for s := 0; s < steps; s++ {
		op := 0
		if s == 0 && first >= 0 {
			op = first // the first operation is fixed by the instance (splits the work)
		} else {
			op = vChoose(vOpNames[s], 0, 2)
		}
		switch op {
		case 0:
			begin := vU32(vBeginNames[s])
			data := vBytes(vDataNames[s], 4*16384+1)
			count, complete, err := ps.AddData(index, begin, data, 7)
			vAssert(int(count) <= len(data), "no more bytes taken than offered")
			if count > 0 {
				vReach("stored")
				vAssert(err == nil && begin%16384 == 0 && begin+count <= pl, "blocks are stored aligned and inside the piece")
			}
			if complete {
				vReach("all-blocks")
			}
		case 1:
			done, _, err := ps.Finalise(index, h)
			if done {
				vReach("verified")
				vAssert(err == nil, "verified without error")
				vAssert(vSha1Eq(ps.pieces[index].data, h), "a piece becomes complete only if its SHA-1 matches")
			} else if err == ErrHashMismatch {
				vReach("mismatch")
				vAssert(len(ps.pieces[index].data) == 0, "a piece that failed its hash is discarded")
			}
		case 2:
			ps.mu.Lock()
			done, complete := ps.del(index, false)
			ps.mu.Unlock()
			if done {
				vReach("evicted")
				if complete {
					vReach("evicted-complete")
				}
			}
		}
		vInv(ps, index, base, 0)
	}
	vReadCheck(ps, psz, total, index, h, "off", "n")
}

// H_C03_del: deleting a torrent gives back every byte and nothing is allocated afterwards.
// Pre-state: piece `index` holds an arbitrary first block (possibly the whole piece, possibly
// verified); then Del(); then another AddData.
func H_C03_del() {
	psz := uint32(vParam("ps"))
	total := vI64("total")
	vAssume(total >= 1 && total <= 6*int64(psz)) // Del walks every piece (loop bound)
	ps := &Pieces{}
	ps.MetadataComplete(psz, total)
	index := vU32("index")
	vAssume(int64(index) < (total+int64(psz)-1)/int64(psz))
	pl := ps.PieceLength(index)
	vAssume(pl <= 2*16384)
	base := alloc.Bytes()
	h := hash.Hash(vBytes("h", 20))
	vAssume(len(h) == 20)
	ps.AddData(index, 0, vBytes("data0", 2*16384), 7)
	if vBool("finalise") {
		ps.Finalise(index, h)
	}
	ps.Del()
	vReach("deleted")
	vAssert(alloc.Bytes() == base, "deleting a torrent gives back every byte it held")
	vAssert(ps.count == 0 && len(ps.pieces[index].data) == 0, "no piece holds data after deletion")
	n, _, err := ps.AddData(index, 0, vBytes("data1", 2*16384), 7)
	vAssert(n == 0 && err == ErrDeleted, "a deleted torrent takes no data")
	vAssert(alloc.Bytes() == base, "nothing is allocated for a deleted torrent")
	buf := make([]byte, 100)
	m, _ := ps.ReadAt(buf, int64(index)*int64(psz))
	vAssert(m == 0, "a deleted torrent returns no data")
}

// H_C03_alloc: accounting across the heap / mmap boundary: a piece of ANY length up to the piece
// size (1 MiB: both sides of the 128 KiB mmap cut-off, page-aligned or not) gets its first
// block, is evicted, gets a block again.
func H_C03_alloc() {
	psz := uint32(vParam("ps"))
	total := vI64("total")
	vAssume(total >= 1 && total <= 6*int64(psz)) // Del walks every piece (loop bound)
	ps := &Pieces{}
	ps.MetadataComplete(psz, total)
	index := vU32("index")
	vAssume(int64(index) < (total+int64(psz)-1)/int64(psz))
	pl := ps.PieceLength(index)
	base := alloc.Bytes()
	data := vBytes("data", 16384)
	vAssume(len(data) == 16384 || len(data) == int(pl))
	n, _, err := ps.AddData(index, 0, data, 7)
	if n > 0 {
		vReach("stored")
		vAssert(err == nil, "stored without error")
		vAssert(alloc.Bytes() == base+int64(len(ps.pieces[index].data)), "allocated bytes == size of the buffer")
		if pl >= 128*1024 {
			vReach("mmap")
		} else {
			vReach("heap")
		}
	}
	ps.mu.Lock()
	ps.del(index, false)
	ps.mu.Unlock()
	vAssert(alloc.Bytes() == base, "evicting the piece gives back exactly what it took")
	ps.AddData(index, 0, data, 7)
	ps.Del()
	vAssert(alloc.Bytes() == base, "deleting the torrent gives back exactly what it took")
}

var vTimeNames = []string{"tm0", "tm1", "tm2"}
var vDoneNames = []string{"done0", "done1", "done2"}

// H_C03_expire: one per-torrent eviction pass over a 3-piece store in which any subset of pieces
// holds data (complete or not) with ARBITRARY access times, to an arbitrary byte target: afterwards
// the store is at or below the target or holds nothing; every complete piece dropped - and nothing
// else - is reported; and eviction is least-recently-used first: a piece that was dropped was not
// accessed more recently than one that was kept (all accessed within the last two hours).
func H_C03_expire() {
	ps := &Pieces{}
	ps.MetadataComplete(16384, 3*16384)
	base := alloc.Bytes()
	h := hash.Hash(vBytes("h", 20))
	vAssume(len(h) == 20)
	now := mono.Now()
	var held, complete [3]bool
	var tm [3]mono.Time
	for i := 0; i < 3; i++ {
		if vParam("hold")&(1<<uint(i)) != 0 {
			d := vBytes([]string{"d0", "d1", "d2"}[i], 16384)
			vAssume(len(d) == 16384)
			ps.AddData(uint32(i), 0, d, 1)
			held[i] = true
			if vBool(vDoneNames[i]) {
				done, _, _ := ps.Finalise(uint32(i), h)
				vAssume(done)
				complete[i] = true
			}
		}
		tm[i] = mono.Time(vU32(vTimeNames[i]))
		vAssume(tm[i] <= now && now.Sub(tm[i]) < 7200)
		ps.pieces[i].SetTime(tm[i])
	}
	target := vI64("target")
	vAssume(target >= -(1<<40) && target <= 1<<40)
	var reported [3]int
	n := ps.Expire(target, nil, func(index uint32) { reported[index]++ })
	vReach("expired")
	left := 0
	for i := 0; i < 3; i++ {
		dropped := held[i] && len(ps.pieces[i].data) == 0
		if len(ps.pieces[i].data) > 0 {
			left++
			vAssert(held[i], "eviction creates nothing")
		}
		vAssert(reported[i] == vIte(dropped && complete[i], 1, 0), "exactly the complete pieces that were dropped are reported, once")
		for j := 0; j < 3; j++ {
			keptJ := held[j] && len(ps.pieces[j].data) > 0
			vAssert(vImp(vAnd(dropped, keptJ), tm[i] <= tm[j]), "least recently accessed first: a dropped piece is not younger than a kept one")
		}
	}
	t := target
	if t < 0 {
		t = 0
	}
	vAssert(int64(left)*16384 <= t || left == 0, "the pass reaches the target or empties the store")
	vAssert(alloc.Bytes() == base+int64(left)*16384, "accounting follows")
	_ = n
}
