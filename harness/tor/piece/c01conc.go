//go:build verif

package piece

import (
	"github.com/jech/storrent/alloc"
	"github.com/jech/storrent/hash"
)

// H_C01_conc: concurrent operations on a 2-piece store, every schedule with at most `preempt`
// pre-emptions (switch points: lock / unlock / atomic operation / the SHA-1 computation /
// sleep). Piece 1 holds all its blocks (arbitrary content) and is about to be hashed against an
// arbitrary metainfo hash. Parameter set:
//   1: Finalise(1) || ReadAt(piece 1)
//   2: Finalise(1) || Del() || AddData(0)
//   3: Finalise(1) || evict(1) || ReadAt(piece 1)
//   4: Finalise(1) || Del() || ReadAt(piece 1)
//   5: Finalise(1) || AddData(1) (duplicate block) || ReadAt(piece 1)
//   6: Finalise(1) || Finalise(1)
func H_C01_conc() {
	ps := &Pieces{}
	ps.MetadataComplete(16384, 2*16384)
	before := alloc.Bytes()
	d1 := vBytes("d1", 16384)
	vAssume(len(d1) == 16384)
	_, complete, _ := ps.AddData(1, 0, d1, 1)
	vAssume(complete)
	h := hash.Hash(vBytes("h", 20))
	vAssume(len(h) == 20)
	d0 := vBytes("d0", 16384)
	vAssume(len(d0) == 16384)
	set := vParam("set")
	var rn int
	rbuf := make([]byte, 64)
	roff := int64(16384) + int64(vU16("roff")%16384)
	var fdone, fdone2 bool
	read := func() { rn, _ = ps.ReadAt(rbuf, roff) }
	go func() { fdone, _, _ = ps.Finalise(1, h) }()
	switch set {
	case 1:
		go read()
	case 2:
		go func() { ps.Del() }()
		go func() { ps.AddData(0, 0, d0, 2) }()
	case 3:
		go func() {
			ps.mu.Lock()
			ps.del(1, false)
			ps.mu.Unlock()
		}()
		go read()
	case 4:
		go func() { ps.Del() }()
		go read()
	case 5:
		go func() { ps.AddData(1, 0, d0, 2) }()
		go read()
	case 6:
		go func() { fdone2, _, _ = ps.Finalise(1, h) }()
	}
	vJoin()
	vReach("joined")
	if rn > 0 {
		vReach("read-data")
		vAssert(vSha1Eq(d1, h), "a read returns data only of a piece whose SHA-1 matched")
		j := vInt("j")
		if j >= 0 && j < rn {
			vAssert(rbuf[j] == d1[int(roff-16384)+j], "bytes are returned at the offset they occupy")
		}
	}
	if fdone || fdone2 {
		vReach("verified")
		vAssert(vSha1Eq(d1, h), "a piece becomes complete only if its SHA-1 matches")
		vAssert(!(fdone && fdone2), "completion is reported once")
	}
	if set == 2 || set == 4 {
		vAssert(alloc.Bytes() == before, "all memory given back after Del")
		vAssert(ps.count == 0, "no piece holds data after Del")
	}
	// accounting after everything has finished
	want := int64(0)
	n := 0
	for i := range ps.pieces {
		if len(ps.pieces[i].data) > 0 {
			want += int64(cap(ps.pieces[i].data))
			n++
			vAssert(vLive(ps.pieces[i].data), "a piece never points at a freed buffer")
		}
	}
	vAssert(alloc.Bytes() == before+want, "allocated bytes == buffers of pieces holding data")
	vAssert(ps.count == n, "count == pieces holding data")
}
