//go:build verif

package piece

// VSetCount sets the number of pieces holding data (so that Bytes() is arbitrary).
func (ps *Pieces) VSetCount(n int) { ps.count = n }

// VData returns the buffer of a piece (nil if it holds no data).
func (ps *Pieces) VData(index uint32) []byte { return ps.pieces[index].data }

// VHasBlock reports whether block c of piece index is present.
func (ps *Pieces) VHasBlock(index uint32, c int) bool { return ps.pieces[index].bitmap.Get(c) }
