//go:build verif

package piece

// VSetCount sets the number of pieces holding data (so that Bytes() is arbitrary).
func (ps *Pieces) VSetCount(n int) { ps.count = n }
