//go:build verif

package tor

import (
	"github.com/jech/storrent/alloc"
	"github.com/jech/storrent/config"
	"github.com/jech/storrent/hash"
	"github.com/jech/storrent/tor/piece"
)

var vCountNames = []string{"count0", "count1", "count2"}

// H_C03_torExpire: the policy arithmetic of the global eviction pass for ANY memory target,
// ANY value of the global byte counter and 0..3 listed torrents holding any number of pieces
// (the counter is sampled before the table is read, so the two may disagree): the memory
// manager never crashes. The per-torrent passes it launches are not run here (goskip).
func H_C03_torExpire() {
	config.MemoryMark = vI64("mark")
	vAssume(config.MemoryMark >= 0 && config.MemoryMark <= int64(1)<<50)
	alloc.VSetBytes(vI64("allocated"))
	vAssume(alloc.Bytes() >= 0 && alloc.Bytes() <= int64(1)<<50)
	n := vParam("n")
	for i := 0; i < 3; i++ {
		del(hash.Hash([]byte{byte(i), 1, 2, 3, 4, 5, 6, 7, 8, 9, 10, 11, 12, 13, 14, 15, 16, 17, 18, 19})) // (native replays share the table)
	}
	for i := 0; i < n; i++ {
		t := &Torrent{Hash: hash.Hash([]byte{byte(i), 1, 2, 3, 4, 5, 6, 7, 8, 9, 10, 11, 12, 13, 14, 15, 16, 17, 18, 19})}
		t.Pieces.MetadataComplete(16384, 4*16384)
		c := vInt(vCountNames[i])
		vAssume(c >= 0 && c <= 1<<26)
		t.Pieces.VSetCount(c)
		t.Done = make(chan struct{})
		close(t.Done)
		vAssume(add(t))
	}
	r := Expire() // a panic (division by zero) is the violation
	vReach("returned")
	vAssert(r == -1 || r == 0 || r == 1, "verdict is one of evict / hold / grow")
	if r == -1 {
		vReach("evicting")
		vAssert(alloc.Bytes() >= config.MemoryHighMark(), "eviction only at or above the high mark")
	}
}

var vExpPs []*piece.Pieces
var vExpTarget []int64

// vRecExpire stands in for the per-torrent eviction pass: it records the target it is given.
func vRecExpire(ps *piece.Pieces, bytes int64, available []uint16, f func(index uint32)) int {
	vExpPs = append(vExpPs, ps)
	vExpTarget = append(vExpTarget, bytes)
	return 0
}

// H_C03_torExpire_targets: the targets the global pass hands to the per-torrent passes, for 2..3
// torrents holding any number of pieces and any memory mark, the byte counter being the sum of
// what the torrents hold: if every per-torrent pass reaches its target (H_C03_expire: it does,
// or empties the torrent), the total comes down to the low-water mark (how the reduction is
// shared out between the torrents is policy, not checked).
func H_C03_torExpire_targets() {
	config.MemoryMark = vI64("mark")
	vAssume(config.MemoryMark >= 0 && config.MemoryMark <= int64(1)<<50)
	n := vParam("n")
	for i := 0; i < 3; i++ {
		del(hash.Hash([]byte{byte(i), 1, 2, 3, 4, 5, 6, 7, 8, 9, 10, 11, 12, 13, 14, 15, 16, 17, 18, 19}))
	}
	var ts []*Torrent
	var total int64
	for i := 0; i < n; i++ {
		t := &Torrent{Hash: hash.Hash([]byte{byte(i), 1, 2, 3, 4, 5, 6, 7, 8, 9, 10, 11, 12, 13, 14, 15, 16, 17, 18, 19})}
		t.Pieces.MetadataComplete(16384, 4*16384)
		c := vInt(vCountNames[i])
		vAssume(c >= 0 && c <= 1<<26)
		t.Pieces.VSetCount(c)
		t.Done = make(chan struct{})
		close(t.Done)
		vAssume(add(t))
		ts = append(ts, t)
		total += t.Pieces.Bytes()
	}
	alloc.VSetBytes(total)
	vExpPs, vExpTarget = nil, nil
	r := Expire()
	vJoin()
	if r != -1 {
		vReach("no-eviction")
		return
	}
	vReach("evicting")
	low := config.MemoryLowMark()
	var after int64
	for _, t := range ts {
		b := t.Pieces.Bytes()
		for k := range vExpPs {
			if vExpPs[k] == &t.Pieces {
				vAssert(vExpTarget[k] >= 0, "targets are not negative")
				if vExpTarget[k] < b {
					b = vExpTarget[k]
				}
			}
		}
		after += b
	}
	vAssert(after <= low, "if every per-torrent pass reaches its target the total comes down to the low mark")
}
