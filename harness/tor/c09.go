//go:build verif

package tor

import (
	"github.com/jech/storrent/peer"
	"github.com/jech/storrent/protocol"
)

// H_C09_piece_msg: conservation of the in-flight count over one Piece message. The peer has
// exactly one pending request (chunk c, queued or outstanding); the message is arbitrary
// (full / short / empty / over-long / misplaced / unrequested). The events the REAL peer code
// emits are pushed through the REAL tor.handleEvent and the decrement of an arbitrary slot x
// is read off:   [c pending before] == [c pending after] + released(c);  released(x != c) == 0
// unless the message delivered data for x that was stored.
func H_C09_piece_msg() {
	t, ps, total := vMkTorrent()
	p := peer.VNewPeer(&t.Pieces, t.Event)
	t.peers = []*peer.Peer{p}
	nc := uint32((total + 16383) / 16384)
	c := vU32("c")
	vAssume(c < nc)
	ci, _ := peer.VFromChunk(p, c)
	peer.VSetHave(p, int(ci))
	if vBool("outstanding") {
		vAssume(peer.VMakeOutstanding(p, c))
	} else {
		vAssume(peer.VEnqueue(p, c))
	}
	x := vU32("x")
	vAssume(x < nc)
	vAssume(t.inFlight[c] >= 1 && t.inFlight[c] < 255) // the torrent counted the request it commanded
	pre := t.inFlight[x]
	m := protocol.Piece{Index: vU32("mi"), Begin: vU32("mb"), Data: vBytes("md", 2*16384+1)}
	n := len(m.Data)
	err := peer.VHandleMessage(p, m)
	vAssert(peer.VBacklog(p) == 0, "events fit the torrent's queue")
	vDrain(t)
	still := peer.VPending(p)
	released := int(pre) - int(t.inFlight[x])
	if err != nil {
		vReach("error")
		vAssert(still == 1 && released == 0, "a refused message changes nothing")
		return
	}
	cpp := ps / 16384
	hit := m.Index*cpp+m.Begin/16384 == c // the message maps to the requested block's number
	if x == c {
		vReach("slot-c")
		vAssert(still+released == 1, "the pending request is conserved: still pending, or released exactly once")
		vAssert(vImp(!hit, still == 1), "a block for another position does not consume the request")
		if n == 0 {
			vReach("empty-block")
		}
	} else {
		vReach("other-slot")
		first := m.Index*cpp + m.Begin/16384
		covered := vAnd(x >= first, int64(x)*16384 < int64(first)*16384+int64(n))
		vAssert(vImp(!covered, released == 0), "no slot outside the delivered range is released")
		vAssert(vImp(vAnd(covered, pre >= 1), vOr(released == 0, released == 1)), "a covered slot is released at most once")
		vAssert(released == 0, "no slot is released for a block that was not requested from this peer")
	}
}

// H_C09_peer_step: the same law over the other steps that touch the peer's request lists.
// Parameter step: 0 RejectRequest, 1 Choke (fast and not), 2 Unchoke, 3 PeerRequest{d},
// 4 PeerCancel{d}, 5 PeerCancelPiece{i}, 6 the 2-second tick (expireRequests), 7 the exit path
// of Run. One chunk c is pending beforehand; slot x is arbitrary:
//   [x==c] + [step commands x] == pending'(x) + released(x)
func H_C09_peer_step() {
	t, ps, total := vMkTorrent()
	p := peer.VNewPeer(&t.Pieces, t.Event)
	t.peers = []*peer.Peer{p}
	nc := uint32((total + 16383) / 16384)
	cpp := ps / 16384
	c := vU32("c")
	vAssume(c < nc)
	ci, _ := peer.VFromChunk(p, c)
	if vBool("has-c") {
		peer.VSetHave(p, int(ci))
	}
	peer.VSetFast(p, vBool("fast"))
	peer.VSetUnchoked(p, uint32(vChoose("unchoked", 0, 1)))
	if vBool("outstanding") {
		vAssume(peer.VMakeOutstanding(p, c))
	} else {
		vAssume(peer.VEnqueue(p, c))
	}
	x := vU32("x")
	vAssume(x < nc)
	d := vU32("d")
	vAssume(d < nc)
	vAssume(t.inFlight[c] >= 1 && t.inFlight[c] < 200 && t.inFlight[d] < 200)
	commanded := 0
	step := vParam("step")
	if step == 7 {
		vAssume(c < 64) // the exit path walks the peer's whole bitmap (loop bound)
	}
	if step == 3 {
		// the torrent counts a chunk when the peer took the command (tor.request)
		t.inFlight[d]++
		commanded = vIte(x == d, 1, 0)
	}
	pre := int(t.inFlight[x])
	if step == 3 && x == d {
		pre--
	}
	var err error
	switch step {
	case 0:
		err = peer.VHandleMessage(p, protocol.RejectRequest{Index: vU32("mi"), Begin: vU32("mb"), Length: vU32("ml")})
	case 1:
		err = peer.VHandleMessage(p, protocol.Choke{})
	case 2:
		err = peer.VHandleMessage(p, protocol.Unchoke{})
	case 3:
		di, _ := peer.VFromChunk(p, d)
		if vBool("has-d") {
			peer.VSetHave(p, int(di))
		}
		err = peer.VHandleEvent(p, peer.PeerRequest{Chunks: []uint32{d}})
	case 4:
		err = peer.VHandleEvent(p, peer.PeerCancel{Chunk: d})
	case 5:
		i := vU32("pi")
		vAssume(int(i) < t.Pieces.Num())
		err = peer.VHandleEvent(p, peer.PeerCancelPiece{Index: i})
	case 6:
		peer.VExpire(p)
	case 7:
		peer.VRunExit(p, t.Event)
	}
	_ = cpp
	vAssert(peer.VBacklog(p) == 0, "events fit the torrent's queue")
	vDrain(t)
	if err != nil {
		vReach("error")
	}
	after := peer.VCount(p, x)
	vAssert(after <= 1, "a chunk is pending at most once at a peer")
	vAssert(peer.VMember(p, x) == (after == 1), "membership bitmap agrees with the lists")
	released := pre + commanded - int(t.inFlight[x])
	before := vIte(x == c, 1, 0)
	vReach("law")
	vAssert(before+commanded == after+released, "in-flight conservation: pending before + commanded == pending after + released")
	if step == 7 {
		vAssert(after == 0, "nothing stays pending at a peer that has exited")
	}
}

var vAvNames = []string{"a0", "a1", "a2", "a3", "a4", "a5", "a6", "a7", "a8", "a9", "a10", "a11", "a12", "a13", "a14", "a15"}

// H_C09_avail: availability bookkeeping over one step that touches the peer's advertised set
// (parameter step: 0 Have, 1 Bitfield, 2 HaveAll, 3 HaveNone, 4 DontHave, 5 exit of Run):
// for an arbitrary piece i,  available'[i] - available[i] == [i in bitmap'] - [i in bitmap],
// the events of the real peer code being applied by the real tor.handleEvent.
func H_C09_avail() {
	ps := uint32(16384)
	total := vI64("total")
	maxp := vParam("maxp")
	vAssume(total >= 1 && total <= int64(maxp)*16384)
	t := &Torrent{Hash: make([]byte, 20), requested: Requested{pieces: make(map[uint32]*RequestedPiece)}}
	t.Pieces.MetadataComplete(ps, total)
	np := t.Pieces.Num()
	t.inFlight = make([]uint8, np)
	t.infoComplete = 1
	t.Event = make(chan peer.TorEvent, 512)
	t.Done = make(chan struct{})
	p := peer.VNewPeer(&t.Pieces, t.Event)
	t.peers = []*peer.Peer{p}
	pb := vBytes("pb", 1)
	for k := 0; k < 8; k++ {
		// Bitmap.Len() <= pieces is what the peer enforces: no bit at or beyond the piece count
		vAssume(vImp(k >= np, !peer.VGet(pb, k)))
	}
	peer.VSetBitmap(p, pb)
	peer.VSetFast(p, vBool("fast"))
	t.available = make([]uint16, 8)
	for k := 0; k < maxp; k++ {
		a := vU16(vAvNames[k])
		vAssume(a < 60000)
		vAssume(vImp(peer.VGet(pb, k), a >= 1)) // this peer's advertisement is counted
		t.available[k] = a
	}
	i := vInt("i")
	vAssume(i >= 0 && i < np)
	hadBefore := peer.VHas(p, i)
	avBefore := t.available[i]
	var err error
	switch vParam("step") {
	case 0:
		err = peer.VHandleMessage(p, protocol.Have{Index: vU32("mi")})
	case 1:
		err = peer.VHandleMessage(p, protocol.Bitfield{Bitfield: vBytes("bf", 1)})
	case 2:
		err = peer.VHandleMessage(p, protocol.HaveAll{})
	case 3:
		err = peer.VHandleMessage(p, protocol.HaveNone{})
	case 4:
		err = peer.VHandleMessage(p, protocol.ExtendedDontHave{Subtype: 3, Index: vU32("mi")})
	case 5:
		peer.VRunExit(p, t.Event)
	}
	vAssert(peer.VBacklog(p) == 0, "events fit the torrent's queue")
	vDrain(t)
	if err != nil {
		vReach("error")
	} else {
		vReach("ok")
	}
	hasAfter := peer.VHas(p, i)
	if vParam("step") == 5 {
		hasAfter = false // a peer that has exited advertises nothing
	}
	delta := int(t.available[i]) - int(avBefore)
	vAssert(delta == vIte(hasAfter, 1, 0)-vIte(hadBefore, 1, 0), "availability follows the advertised set")
}

// H_C09_avail2: two advertisement messages handled back to back BEFORE the torrent processes
// the events of the first (events in transit), then everything is drained: the law must hold
// for the pair (catches events that alias the peer's live state). Parameter first: 1 Bitfield,
// 2 HaveAll; second: 0 Have, 4 DontHave.
func H_C09_avail2() {
	total := vI64("total")
	maxp := 8
	vAssume(total >= 1 && total <= int64(maxp)*16384)
	t := &Torrent{Hash: make([]byte, 20), requested: Requested{pieces: make(map[uint32]*RequestedPiece)}}
	t.Pieces.MetadataComplete(16384, total)
	np := t.Pieces.Num()
	t.inFlight = make([]uint8, np)
	t.infoComplete = 1
	t.Event = make(chan peer.TorEvent, 512)
	t.Done = make(chan struct{})
	p := peer.VNewPeer(&t.Pieces, t.Event)
	t.peers = []*peer.Peer{p}
	peer.VSetFast(p, true)
	t.available = make([]uint16, 8)
	for k := 0; k < maxp; k++ {
		a := vU16(vAvNames[k])
		vAssume(a < 60000)
		t.available[k] = a
	}
	i := vInt("i")
	vAssume(i >= 0 && i < np)
	avBefore := t.available[i]
	var err error
	if vParam("first") == 1 {
		err = peer.VHandleMessage(p, protocol.Bitfield{Bitfield: vBytes("bf", 1)})
	} else {
		err = peer.VHandleMessage(p, protocol.HaveAll{})
	}
	vAssume(err == nil)
	if vParam("second") == 0 {
		err = peer.VHandleMessage(p, protocol.Have{Index: vU32("mi")})
	} else {
		err = peer.VHandleMessage(p, protocol.ExtendedDontHave{Subtype: 3, Index: vU32("mi")})
	}
	vAssert(peer.VBacklog(p) == 0, "events fit the torrent's queue")
	vDrain(t)
	if err == nil {
		vReach("both-accepted")
	}
	delta := int(t.available[i]) - int(avBefore)
	vAssert(delta == vIte(peer.VHas(p, i), 1, 0), "availability follows the advertised set across events in transit")
}
