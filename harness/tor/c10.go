//go:build verif

package tor

import (
	"context"

	"github.com/jech/storrent/hash"
	"github.com/jech/storrent/peer"
)

var vC10Op = []string{"op0", "op1", "op2", "op3", "op4", "op5"}
var vC10Ix = []string{"ix0", "ix1", "ix2", "ix3", "ix4", "ix5"}
var vC10Pr = []string{"pr0", "pr1", "pr2", "pr3", "pr4", "pr5"}
var vC10Wt = []string{"wt0", "wt1", "wt2", "wt3", "wt4", "wt5"}

func vClosed(c <-chan struct{}) bool {
	select {
	case <-c:
		return true
	default:
		return false
	}
}

// H_C10_requested_hist: the set of requested pieces as an abstract data type: histories of
// <= `steps` operations from {Add (any of 4 priorities incl. idle, waiting or not), Del, Done,
// DelIdlePiece} on 2 pieces against a reference multiset kept by the harness. Checked after
// every operation: the entry exists iff some priority is registered or the piece is held for
// the idle prefetcher; Del removes exactly one matching occurrence and reports cancellation
// iff it removed the last one; a channel handed to a waiter is closed exactly when the piece is
// Done or its entry disappears - never earlier, never twice (close of a closed channel panics).
func H_C10_requested_hist() {
	rs := &Requested{pieces: make(map[uint32]*RequestedPiece)}
	prios := []int8{1, 0, -1, IdlePriority}
	var cnt [2][4]int // reference multiset: registered occurrences per piece and priority
	var held [2]bool  // entry exists (possibly only for the idle prefetcher)
	var handed [2][]<-chan struct{}
	steps := vParam("steps")
	for s := 0; s < steps; s++ {
		i := vChoose(vC10Ix[s], 0, 1)
		index := uint32(i)
		switch vChoose(vC10Op[s], 0, 3) {
		case 0:
			pk := vChoose(vC10Pr[s], 0, 3)
			want := vChoose(vC10Wt[s], 0, 1) == 1
			ch, added := rs.Add(index, prios[pk], want)
			vAssert(added == (!held[i] || pk != 3), "Add reports whether the piece was newly requested or its priority raised")
			held[i] = true
			if pk != 3 {
				cnt[i][pk]++
			}
			if want {
				vAssert(ch != nil && !vClosed(ch), "a waiter is handed an open channel")
				handed[i] = append(handed[i], ch)
			}
		case 1:
			pk := vChoose(vC10Pr[s], 0, 2)
			removed := rs.Del(index, prios[pk])
			if held[i] && cnt[i][pk] > 0 {
				cnt[i][pk]--
				last := cnt[i][0]+cnt[i][1]+cnt[i][2] == 0
				vAssert(removed == last, "Del reports cancellation iff it removed the last registered priority")
				if last {
					held[i] = false
					for _, c := range handed[i] {
						vAssert(vClosed(c), "waiters are released when the entry disappears")
					}
					handed[i] = nil
				}
			} else {
				vAssert(!removed, "Del of a priority that is not registered removes nothing")
			}
		case 2:
			rs.Done(index)
			for _, c := range handed[i] {
				vAssert(vClosed(c), "Done wakes every waiter of the piece")
			}
			handed[i] = nil
			if held[i] && cnt[i][0]+cnt[i][1]+cnt[i][2] == 0 {
				held[i] = false
			}
		case 3:
			rs.DelIdlePiece(index)
			if held[i] && cnt[i][0]+cnt[i][1]+cnt[i][2] == 0 {
				held[i] = false
				for _, c := range handed[i] {
					vAssert(vClosed(c), "waiters are released when the entry disappears")
				}
				handed[i] = nil
			}
		}
		// representation vs reference, both pieces
		for k := 0; k < 2; k++ {
			r := rs.pieces[uint32(k)]
			vAssert((r != nil) == held[k], "the piece is requested exactly as long as a consumer or the idle prefetcher wants it")
			if r != nil {
				vAssert(len(r.prio) == cnt[k][0]+cnt[k][1]+cnt[k][2], "one stored priority per registration")
				n1 := 0
				for _, p := range r.prio {
					if p == 1 {
						n1++
					}
				}
				vAssert(n1 == cnt[k][0], "priorities are kept as a multiset")
			}
			for _, c := range handed[k] {
				vAssert(!vClosed(c), "no waiter is woken before the piece is done or withdrawn")
			}
		}
	}
	vReach("end")
}

// H_C10_request_vs_have: a consumer's request racing with the piece's completion, as the two
// orders in which the event loop can see them (parameter order: 0 = TorHave then TorRequest,
// 1 = TorRequest then TorHave), through the real handleEvent, the piece being verified in the
// store: afterwards the consumer holds no channel, or a closed one - never an open channel that
// nothing will close.
func H_C10_request_vs_have() {
	t := vLiveTorrent()
	d := vBytes("d", 16384)
	vAssume(len(d) == 16384)
	h := hash.Hash(vBytes("h", 20))
	vAssume(len(h) == 20)
	t.Pieces.AddData(0, 0, d, 1)
	done, _, _ := t.Pieces.Finalise(0, h)
	vAssume(done)
	if vBool("earlier-waiter") {
		t.requested.Add(0, 1, true)
	}
	ctx := context.Background()
	ans := make(chan (<-chan struct{}), 1)
	req := peer.TorRequest{Index: 0, Priority: int8(vChoose("prio", -1, 1)), Request: true, Ch: ans}
	have := peer.TorHave{Index: 0, Have: true}
	if vParam("order") == 0 {
		handleEvent(ctx, t, have)
		handleEvent(ctx, t, req)
	} else {
		handleEvent(ctx, t, req)
		handleEvent(ctx, t, have)
	}
	c := <-ans
	vReach("answered")
	vAssert(c == nil || vClosed(c), "a consumer of a verified piece is never left waiting on a channel nobody will close")
}

// ---- reader ledger ----

type vLedgerKey struct {
	index uint32
	prio  int8
}

var vLedger map[vLedgerKey]int
var vLedgerCalls int

// vRequestModel stands in for Torrent.Request under H_C10_reader_ledger: an exact ledger of the
// priorities registered and withdrawn; a request is arbitrarily refused as "already complete".
func vRequestModel(t *Torrent, index uint32, prio int8, request bool, want bool) (bool, <-chan struct{}, error) {
	vLedgerCalls++
	k := vLedgerKey{index, prio}
	if !request {
		vLedger[k]--
		vAssert(vLedger[k] >= 0, "a reader never withdraws a priority it did not register")
		return true, nil, nil
	}
	if vLedgerCalls <= 6 && vBool([]string{"c0", "c1", "c2", "c3", "c4", "c5", "c6"}[vLedgerCalls]) {
		return false, nil, nil // piece already complete: nothing registered
	}
	vLedger[k]++
	return true, nil, nil
}

// H_C10_reader_ledger: two successive position changes of a Reader (any positions in a 4-piece
// torrent; -1 = the cancel used at EOF / error) followed by Close: every priority the reader
// registered has been withdrawn exactly once, and nothing it did not register was withdrawn.
func H_C10_reader_ledger() {
	t := &Torrent{}
	t.Pieces.MetadataComplete(16384, 4*16384)
	vLedger = map[vLedgerKey]int{}
	vLedgerCalls = 0
	r := &Reader{torrent: t, offset: 0, length: 4 * 16384, requestedIndex: -1, context: context.Background()}
	p1, p2 := vI64("pos1"), vI64("pos2")
	vAssume(p1 >= 0 && p1 < 4*16384)
	vAssume(p2 >= -1 && p2 < 4*16384)
	r.request(p1, 4*16384)
	if p2 < 0 {
		r.request(-1, -1)
	} else {
		r.request(p2, 4*16384)
	}
	r.Close()
	vReach("closed")
	for i := uint32(0); i < 4; i++ {
		for _, p := range []int8{1, 0, -1} {
			vAssert(vLedger[vLedgerKey{i, p}] == 0, "after Close every registered priority has been withdrawn exactly once")
		}
	}
}

// vChunksModel stands in for Reader.chunks (float-driven prefetch sizing): the piece at pos at
// priority 1 plus an arbitrary prefetch tail of the following pieces, inside the torrent.
func vChunksModel(r *Reader, pos int64, limit int64) []requested {
	if pos < 0 || pos > limit {
		return nil
	}
	index := uint32(pos / 16384)
	c := []requested{{index, 1}}
	if index+1 < 4 && vBool("pre1") {
		c = append(c, requested{index + 1, 0})
		if index+2 < 4 && vBool("pre2") {
			c = append(c, requested{index + 2, -1})
		}
	}
	return c
}

// H_C10_race: the real Torrent.Request (whose completeness pre-check runs outside the event loop)
// racing with the real event loop and with the piece being verified and announced (Finalise +
// Have) in a third goroutine; every schedule with <= `preempt` pre-emptions: a consumer that was
// handed a channel for a piece that does get verified is woken (or the torrent dies) - it is
// never left waiting for ever.
func H_C10_race() {
	t := vLiveTorrent()
	d := vBytes("d", 16384)
	vAssume(len(d) == 16384)
	h := hash.Hash(vBytes("h", 20))
	vAssume(len(h) == 20)
	t.Pieces.AddData(0, 0, d, 1)
	fin := make(chan bool, 1)
	go func() {
		t.run(vLiveContext()) // never cancelled: a stuck consumer shows as a deadlock
		close(t.Deleted)
	}()
	go func() {
		done, _, _ := t.Pieces.Finalise(0, h)
		if done {
			t.Have(0, true)
		}
		fin <- done
	}()
	_, ch, err := t.Request(0, 1, true, true)
	verified := <-fin
	if err != nil || ch == nil {
		vReach("no-wait")
		return
	}
	if !verified {
		vReach("not-verified")
		return
	}
	select {
	case <-ch:
		vReach("woken")
	case <-t.Done:
	}
}
