//go:build verif

package tor

import (
	"context"

	"github.com/jech/storrent/hash"
	"github.com/jech/storrent/peer"
)

// vMkTorrent: a torrent with metadata, geometry from the case split (parameter ps) and a
// symbolic total length <= 2^tb; in-flight counters arbitrary.
func vMkTorrent() (*Torrent, uint32, int64) {
	ps := uint32(vParam("ps"))
	total := vI64("total")
	vAssume(total >= 1 && total <= int64(1)<<uint(vParam("tb")))
	t := &Torrent{Hash: hash.Hash(make([]byte, 20)), requested: Requested{pieces: make(map[uint32]*RequestedPiece)}}
	t.Pieces.MetadataComplete(ps, total)
	t.inFlight = make([]uint8, (total+16383)/16384)
	vHavocBytes(t.inFlight, "inflight")
	t.PieceHashes = make([]hash.Hash, t.Pieces.Num())
	t.infoComplete = 1
	t.Event = make(chan peer.TorEvent, 512)
	t.Done = make(chan struct{})
	return t, ps, total
}

// vDrain feeds every event queued on the torrent's channel to the real handleEvent.
func vDrain(t *Torrent) {
	ctx := context.Background()
	for len(t.Event) > 0 {
		e := <-t.Event
		err := handleEvent(ctx, t, e)
		vAssert(err == nil, "torrent-side handling of a peer's event does not stop the torrent")
	}
}
