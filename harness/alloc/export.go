//go:build verif

package alloc

// VSetBytes sets the global byte counter (to put the memory manager into an arbitrary state).
func VSetBytes(n int64) { allocated = n }
