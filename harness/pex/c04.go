//go:build verif

package pex

// H_C04_ParseCompact: for any data and flags lengths (<= 3 records + remainder), both
// families: never panics, returns at most len(data)/recordsize peers, each the decoded record.
func H_C04_ParseCompact() {
	v6 := vBool("v6")
	data := vBytes("data", 3*18+5)
	flags := vBytes("flags", 5)
	peers := ParseCompact(data, flags, v6)
	l := 6
	if v6 {
		l = 18
	}
	if len(data)%l != 0 {
		vReach("ragged")
		vAssert(len(peers) == 0, "a ragged list yields nothing")
		return
	}
	vReach("ok")
	vAssert(len(peers) == len(data)/l, "one peer per record")
	j := vInt("j")
	if j >= 0 && j < len(peers) {
		vReach("peer")
		p := peers[j]
		o := j * l
		vAssert(p.Addr.Port() == uint16(data[o+l-2])<<8|uint16(data[o+l-1]), "port big-endian")
		if j < len(flags) {
			vAssert(p.Flags == flags[j], "flags in order")
		} else {
			vAssert(p.Flags == 0, "missing flag is zero")
		}
		if !v6 {
			a := p.Addr.Addr().As4()
			vAssert(a[0] == data[o] && a[1] == data[o+1] && a[2] == data[o+2] && a[3] == data[o+3], "ipv4 bytes")
		} else {
			a := p.Addr.Addr().As16()
			k := vInt("k")
			if k >= 0 && k < 16 {
				vAssert(a[k] == data[o+k], "ipv6 bytes")
			}
		}
	}
}
