//go:build verif

package crypto

import (
	"crypto/rc4"
	"io"
	"math/big"
)

func vOptions() *Options {
	return &Options{AllowCryptoHandshake: vBool("o.allowH"), PreferCryptoHandshake: vBool("o.preferH"), ForceCryptoHandshake: vBool("o.forceH"),
		AllowEncryption: vBool("o.allowE"), PreferEncryption: vBool("o.preferE"), ForceEncryption: vBool("o.forceE")}
}

// H_C08_conn_transparent: the encrypted connection, RC4 as an uninterpreted keystream: a write of
// ANY size (0..3*32 KiB+1) over an underlying connection that takes all, part, or fails; the
// receiver reads the wire under any segmentation with the same key: (a) wire byte j is plaintext
// byte j xor keystream byte j - every payload byte is encrypted, at the right keystream position;
// (b) the receiver obtains exactly the bytes the sender wrote; (c) after a failed or short write
// every later Write fails without writing anything.
func H_C08_conn_transparent() {
	key := vBytes("key", 20)
	vAssume(len(key) == 20)
	enc, _ := rc4.NewCipher(key)
	dec, _ := rc4.NewCipher(key)
	ks := make([]byte, 64)
	probe, _ := rc4.NewCipher(key)
	probe.XORKeyStream(ks, ks) // ks[i] = keystream byte i (for i < 64)
	wire := &vScriptConn{werr: vParam("fault") == 1, wshort: vParam("fault") == 2}
	tx := &Conn{conn: wire, enc: enc}
	data := vBytes("data", 3*32*1024+1)
	n, err := tx.Write(data)
	vAssert(n >= 0 && n <= len(data), "write count within the data")
	vAssert(len(wire.out) == n, "the count returned is what reached the wire")
	vAssert((err == nil) == (n == len(data)), "success iff everything was written")
	j := vInt("j")
	if j >= 0 && j < n && j < 64 {
		vReach("wire-byte")
		vAssert(wire.out[j] == data[j]^ks[j], "every byte on the wire is the plaintext xor the keystream at its position")
	}
	if err != nil {
		vReach("write-failed")
		before := len(wire.out)
		n2, err2 := tx.Write(vBytes("more", 8))
		vAssert(n2 == 0 && err2 != nil && len(wire.out) == before, "after a failed write every later write fails without touching the wire")
		return
	}
	vReach("written")
	rxc := &vScriptConn{in: wire.out, seg: vParam("seg")}
	rx := &Conn{conn: rxc, dec: dec}
	buf := make([]byte, 40)
	got := 0
	for r := 0; r < 2; r++ {
		m, _ := rx.Read(buf[got:])
		got += m
	}
	k := vInt("k")
	if k >= 0 && k < got {
		vReach("received")
		vAssert(buf[k] == data[k], "the receiver obtains exactly the bytes the sender wrote")
	}
}

var vHashCalls int
var vHashNames = []string{"hs0", "hs1", "hs2", "hs3", "hs4", "hs5", "hs6", "hs7", "hs8", "hs9"}

// vHash stands in for crypto.hash in the policy harnesses: an arbitrary 20-byte digest per call
// (key derivation itself is decided by H_C08_keys with SHA-1 as an uninterpreted function).
func vHash(v ...[]byte) []byte {
	h := vBytes(vHashNames[vHashCalls], 20)
	vAssume(len(h) == 20)
	vHashOut[vHashCalls] = h[:20]
	vHashCalls++
	return h[:20]
}

var vHashOut [10][]byte

// H_C08_server_policy: the MSE server against an ARBITRARY peer byte stream (the solver supplies
// a stream that gets through the Diffie-Hellman exchange, synchronisation, key check and VC), all
// 2^6 option combinations symbolic: whenever the handshake succeeds, the connection it returns is
// encrypted if the server forces encryption, plaintext if it does not allow it, and the crypto
// handshake was allowed at all.
func H_C08_server_policy() {
	vHashCalls = 0
	o := vOptions()
	in := vBytes("in", 96+90)
	c := &vScriptConn{in: in, seg: 2}
	sk := vBytes("sk", 20)
	vAssume(len(sk) == 20)
	conn, skey, _, err := ServerHandshake(c, nil, [][]byte{sk[:20]}, o)
	if err != nil {
		vReach("refused")
		return
	}
	vReach("established")
	_, encrypted := conn.(*Conn)
	vAssert(o.AllowCryptoHandshake, "a crypto handshake succeeds only if allowed")
	vAssert(skey != nil, "an agreed torrent")
	vAssert(vImp(o.ForceEncryption, encrypted), "when the server forces encryption the connection is encrypted")
	vAssert(vImp(!o.AllowEncryption, !encrypted), "when the server does not allow encryption the connection is plaintext")
	if encrypted {
		vReach("rc4")
	} else {
		vReach("plaintext")
	}
	// what the server told the client: its last write is ENCRYPT(VC, crypto_select, len(padD) = 0)
	// under the sending key (the fourth digest it derives: keyB), after the 1024 discarded bytes.
	// The mode the server continues in is the one it announced - the client's side of the
	// agreement is H_C07_client_glued's "the client continues in the mode it was told".
	ref, _ := rc4.NewCipher(vHashOut[3])
	ks := make([]byte, 1024+14)
	ref.XORKeyStream(ks, ks)
	vAssert(len(c.out) >= 96+14, "the server has sent its public key and its crypto reply")
	r := len(c.out) - 14
	k := vInt("k")
	if k >= 0 && k < 8 {
		vAssert(c.out[r+k]^ks[1024+k] == 0, "the crypto reply starts with the encrypted VC")
	}
	sel := c.out[r+11] ^ ks[1024+11]
	vAssert(c.out[r+8]^ks[1024+8] == 0 && c.out[r+9]^ks[1024+9] == 0 && c.out[r+10]^ks[1024+10] == 0, "crypto_select is 1 or 2 (high bytes zero)")
	vAssert(encrypted == (sel == 2) && !encrypted == (sel == 1), "the server continues in exactly the mode it announced to the client")
}

// H_C08_client_policy: the MSE client against an ARBITRARY server byte stream.
func H_C08_client_policy() {
	vHashCalls = 0
	o := vOptions()
	in := vBytes("in", 96+60)
	c := &vScriptConn{in: in, seg: 2}
	sk := vBytes("sk", 20)
	vAssume(len(sk) == 20)
	conn, _, err := ClientHandshake(c, sk[:20], []byte{1, 2, 3}, o)
	if err != nil {
		vReach("refused")
		return
	}
	vReach("established")
	_, encrypted := conn.(*Conn)
	vAssert(o.AllowCryptoHandshake, "a crypto handshake succeeds only if allowed")
	vAssert(vImp(o.ForceEncryption, encrypted), "when the client forces encryption the connection is encrypted")
	vAssert(vImp(!o.AllowEncryption, !encrypted), "when the client does not allow encryption the connection is plaintext")
	// crypto_provide is in the second flight, encrypted; its plaintext is checked by H_C08_keys
}

var vXA big.Int

// vRandomInt stands in for crypto.randomInt under H_C08_keys: the private exponent is one the
// harness knows, so that it can derive the shared secret the way the specification says.
func vRandomInt() (*big.Int, error) { return &vXA, nil }

// H_C08_keys: key derivation as the MSE specification prescribes, SHA-1 an uninterpreted function
// of its input bytes: what the client sends first in its second flight is
// HASH('req1', S) with S the shared secret in its fixed 96-byte big-endian form, followed by
// HASH('req2', SKEY) xor HASH('req3', S) - computed here independently from the same exponent.
func H_C08_keys() {
	o := &Options{AllowCryptoHandshake: true, AllowEncryption: true}
	vXA.SetBytes(vBytes("xa", 20))
	in := vBytes("in", 96+60)
	vAssume(len(in) >= 96)
	c := &vScriptConn{in: in, seg: 2}
	sk := vBytes("sk", 20)
	vAssume(len(sk) == 20)
	sk = sk[:20]
	ClientHandshake(c, sk, []byte{1, 2, 3}, o)
	if c.writes < 2 || len(c.out) < c.firstw+40 {
		vReach("no-second-flight")
		return
	}
	vReach("second-flight")
	f := c.firstw // the first flight is the public key plus 0..511 bytes of padding
	vAssert(f >= 96 && f <= 96+511, "first flight: 96-byte public key and at most 511 bytes of padding")
	// the specification's derivation
	var yb, s big.Int
	yb.SetBytes(in[:96])
	s.Exp(&yb, &vXA, &p)
	sb := make([]byte, 96)
	s.FillBytes(sb)
	req1 := hash([]byte("req1"), sb)
	req23 := xor(hash([]byte("req2"), sk), hash([]byte("req3"), sb))
	j := vInt("j")
	if j >= 0 && j < 20 {
		vAssert(c.out[f+j] == req1[j], "HASH('req1', S) over the 96-byte form of S")
		vAssert(c.out[f+20+j] == req23[j], "HASH('req2', SKEY) xor HASH('req3', S)")
	}
}

// H_C07_client_glued: the MSE client against an ARBITRARY server stream (<= 156 bytes) delivered
// as coalesced as possible: whatever follows the server's crypto reply in the same reads is
// handed to the message layer in order and as the negotiated method says: the bytes returned
// are the LAST len(buf) bytes read from the stream - untouched in plaintext mode, xor the LAST
// len(buf) keystream bytes the receiving cipher has produced in RC4 mode (ghost: the cipher's
// position). That nothing is lost between the reply and these bytes is H_C07_server_over_mse's
// and the framing harnesses' subject, not this one's.
func H_C07_client_glued() {
	vHashCalls = 0
	o := vOptions()
	in := vBytes("in", 96+60)
	c := &vScriptConn{in: in, seg: 2}
	sk := vBytes("sk", 20)
	vAssume(len(sk) == 20)
	conn, buf, err := ClientHandshake(c, sk[:20], []byte{1, 2, 3}, o)
	if err != nil {
		vReach("refused")
		return
	}
	vReach("established")
	ec, encrypted := conn.(*Conn)
	o0 := c.pos - len(buf)
	vAssert(o0 >= 96+14, "the glued bytes start after the public key and the crypto reply")
	j := vInt("j")
	if j < 0 || j >= len(buf) {
		return
	}
	if !encrypted {
		vReach("glued-plaintext")
		vAssert(buf[j] == in[o0+j], "plaintext mode: glued bytes are handed on as received")
		return
	}
	vReach("glued-rc4")
	ref, _ := rc4.NewCipher(vHashOut[1]) // the receiving key: the second digest the handshake derives (keyB)
	ks := make([]byte, 1024+14+60+60)
	ref.XORKeyStream(ks, ks)
	x0 := vCipherPos(ec.dec) - len(buf)
	vAssert(x0 >= 1024+14, "the receiving cipher has skipped 1024 bytes and decrypted the crypto reply")
	vAssert(buf[j] == in[o0+j]^ks[x0+j], "RC4 mode: glued bytes are decrypted, each at its keystream position")
	// the mode is the one the server announced: crypto_select sits 6+len(padD) bytes before the
	// glued bytes, at keystream position 1024+8..1024+12
	padD := x0 - (1024 + 14)
	if o0-padD-6 >= 96 {
		vAssert(in[o0-padD-6+3]^ks[1024+11] == 2, "the client continues encrypted only if the server selected RC4")
	}
}

var vSyncN, vSyncM, vSyncV int

// vSyncRec stands in for synchronise under H_C07_sync_window: it records the window it is given
// and ends the handshake.
func vSyncRec(c io.Reader, w []byte, v []byte, n, m int) ([]byte, error) {
	vSyncN, vSyncM, vSyncV = n, m, len(v)
	return w, io.ErrUnexpectedEOF
}

// H_C07_sync_window: the search windows the two handshakes use. MSE lets each side send 0..512
// bytes of padding before its synchronisation pattern (the 8-byte encrypted VC for the client to
// find, the 20-byte req1 hash for the server): with the scan succeeding exactly when the pattern
// lies entirely within its window (H_C07_synchronise), every legal peer is found under every
// segmentation iff the window is at least 512 + the pattern's length.
func H_C07_sync_window() {
	vHashCalls = 0
	o := &Options{AllowCryptoHandshake: true, AllowEncryption: true}
	in := vBytes("in", 96+8)
	vAssume(len(in) >= 96)
	c := &vScriptConn{in: in, seg: 2}
	sk := vBytes("sk", 20)
	vAssume(len(sk) == 20)
	vSyncN = -1
	if vParam("side") == 0 {
		ClientHandshake(c, sk[:20], []byte{1, 2, 3}, o)
	} else {
		ServerHandshake(c, nil, [][]byte{sk[:20]}, o)
	}
	if vSyncN < 0 {
		vReach("no-sync")
		return
	}
	vReach("sync")
	vAssert(vSyncN >= 512+vSyncV, "the search window admits the longest legal padding and the whole pattern")
	vAssert(vSyncV == 8 || vSyncV == 20, "the pattern is the encrypted VC or the req1 hash")
}

// H_C08_server_select: the MSE server against a WELL-FORMED client flight built by the harness
// from symbolic fields - public key, PadA of 0 or 3 bytes (parameter), HASH('req1',S), HASH('req2',SKEY) xor
// HASH('req3',S), ENCRYPT(VC, crypto_provide (any 4 bytes), len(PadC)=0, len(IA)=0) - with the
// digests the server itself derives (crypto.hash replaced by arbitrary digests, the same symbols
// on both sides) and the keystream of its receiving key: whenever the handshake succeeds the
// method the server selects is one the client offered (and one its own policy permits:
// H_C08_server_policy), so both ends continue in a mode both permit.
func H_C08_server_select() {
	vHashCalls = 0
	o := vOptions()
	var hs [5][]byte
	for i := range hs {
		hs[i] = vBytes(vHashNames[i], 20)
		vAssume(len(hs[i]) == 20)
		hs[i] = hs[i][:20]
	}
	// the server derives, in this order: req1 (0), req3 (1), req2 of the only torrent (2), keyB (3), keyA (4)
	kc, _ := rc4.NewCipher(hs[4])
	ks := make([]byte, 1024+16)
	kc.XORKeyStream(ks, ks)
	ya := vBytes("ya", 96)
	vAssume(len(ya) == 96)
	pad := vBytes("pada", 4)
	vAssume(len(pad) == vParam("pad"))
	pad = pad[:vParam("pad")]
	for i := range pad {
		// (no padding byte starts a coincidental earlier occurrence of the req1 hash: the flight is
		// parsed where the harness put its fields)
		vAssume(pad[i] != hs[0][0])
	}
	provide := vBytes("provide", 4)
	vAssume(len(provide) == 4)
	in := append([]byte{}, ya[:96]...)
	in = append(in, pad...)
	in = append(in, hs[0]...)
	in = append(in, xor(hs[1], hs[2])...)
	plain := []byte{0, 0, 0, 0, 0, 0, 0, 0, provide[0], provide[1], provide[2], provide[3], 0, 0, 0, 0}
	for i := 0; i < 16; i++ {
		in = append(in, plain[i]^ks[1024+i])
	}
	c := &vScriptConn{in: in, seg: 2}
	sk := vBytes("sk", 20)
	vAssume(len(sk) == 20)
	conn, skey, _, err := ServerHandshake(c, nil, [][]byte{sk[:20]}, o)
	if err != nil {
		vReach("refused")
		return
	}
	vReach("established")
	_, encrypted := conn.(*Conn)
	vAssert(skey != nil, "an agreed torrent")
	if encrypted {
		vAssert(provide[3]&2 != 0, "the server continues encrypted only if the client offered RC4")
	} else {
		vAssert(provide[3]&1 != 0, "the server continues in plaintext only if the client offered plaintext")
	}
}
