//go:build verif

package crypto

import (
	"io"
	"net"
	"time"
)

type vScriptConn struct {
	in     []byte
	pos    int
	out    []byte
	reads  int
	seg    int
	werr   bool
	wshort bool
	firstw int // length of the first write (first flight incl. padding)
	writes int
}

func (c *vScriptConn) Read(b []byte) (int, error) {
	avail := len(c.in) - c.pos
	if avail == 0 || len(b) == 0 {
		return 0, io.EOF
	}
	var k int
	switch {
	case c.seg == 1:
		k = 1
	case c.seg == 0 && c.reads < 2:
		k = vFreshInt("k")
		vAssume(k >= 1 && k <= len(b) && k <= avail)
	default:
		k = len(b)
		if avail < k {
			k = avail
		}
	}
	c.reads++
	copy(b[:k], c.in[c.pos:c.pos+k])
	c.pos += k
	return k, nil
}
func (c *vScriptConn) Write(b []byte) (int, error) {
	if c.werr {
		if err := vNondetErr("werr"); err != nil {
			return 0, err
		}
	}
	k := len(b)
	if c.wshort && k > 0 {
		k = vFreshInt("wk")
		vAssume(k >= 1 && k <= len(b))
	}
	if c.writes == 0 {
		c.firstw = k
	}
	c.writes++
	c.out = append(c.out, b[:k]...)
	return k, nil
}
func (c *vScriptConn) Close() error                       { return nil }
func (c *vScriptConn) LocalAddr() net.Addr                { return nil }
func (c *vScriptConn) RemoteAddr() net.Addr               { return nil }
func (c *vScriptConn) SetDeadline(t time.Time) error      { return nil }
func (c *vScriptConn) SetReadDeadline(t time.Time) error  { return nil }
func (c *vScriptConn) SetWriteDeadline(t time.Time) error { return nil }

// H_C07_readMore: the MSE layer's buffer primitive: with 0..8 bytes already buffered and any
// segmentation of what follows, after a successful call the buffer consists ONLY of bytes
// received, in order, at least n of them, and ends exactly where the connection's read position is.
func H_C07_readMore() {
	old := vBytes("old", 8)
	in := vBytes("in", 80)
	c := &vScriptConn{in: in, seg: vParam("seg")}
	n, m := vInt("n"), vInt("m")
	vAssume(n >= 0 && n <= 20 && m >= 0 && m <= 64)
	buf := append(make([]byte, 0, 8), old...)
	out, err := readMore(c, buf, n, m)
	if err != nil {
		vReach("error")
		return
	}
	vReach("ok")
	vAssert(len(out) >= n, "at least n bytes are available")
	vAssert(len(out) == len(old)+c.pos, "the buffer ends where the connection's read position is (no bytes that were never received)")
	j := vInt("j")
	if j >= 0 && j < len(out) {
		if j < len(old) {
			vAssert(out[j] == old[j], "bytes already buffered are kept")
		} else if j-len(old) < len(in) {
			vAssert(out[j] == in[j-len(old)], "the rest are the bytes received, in order")
		}
	}
}

// H_C07_synchronise: the scan for a 20-byte synchronisation pattern (the server's req1 hash)
// over a stream of 40 bytes of which 0..8 are already buffered, any segmentation, scan window
// 32, read-ahead limit 36: the scan succeeds exactly when the pattern occurs ENTIRELY WITHIN THE
// WINDOW - wherever a read boundary falls, and however much more arrives glued to it (an
// occurrence that only a coalesced read would reveal must not count, or the outcome would depend
// on segmentation) - and returns exactly the received bytes that follow its FIRST occurrence.
func H_C07_synchronise() {
	all := vBytes("all", 40)
	vAssume(len(all) == 40)
	all = all[:40]
	pre := vInt("pre")
	vAssume(pre >= 0 && pre <= 8)
	v := vBytes("v", 20)
	vAssume(len(v) == 20)
	v = v[:20]
	c := &vScriptConn{in: all[pre:], seg: vParam("seg")}
	w := append(make([]byte, 0, 8), all[:pre]...)
	// reference: position of the first occurrence in the whole stream
	first := -1
	for i := 20; i >= 0; i-- {
		m := true
		for k := 0; k < 20; k++ {
			m = vAnd(m, all[i+k] == v[k])
		}
		first = vIte(m, i, first)
	}
	out, err := synchronise(c, w, v, 32, 36)
	if first >= 0 && first+20 <= 32 {
		vReach("occurs")
		vAssert(err == nil, "a pattern that occurs within the limit is found, whatever the segmentation")
		if err == nil {
			got := pre + c.pos
			vAssert(len(out) == got-(first+20), "what is returned is what was received after the first occurrence")
			j := vInt("j")
			if j >= 0 && j < len(out) {
				vAssert(out[j] == all[first+20+j], "returned bytes are the stream bytes after the pattern, in order")
			}
		}
	} else {
		vReach("absent")
		vAssert(err != nil, "no pattern within the window, no synchronisation - whatever the segmentation")
	}
}
