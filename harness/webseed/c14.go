//go:build verif

package webseed

import (
	"context"
	"io"
	"net/http"
)

type vCountWriter struct{ n int64 }

func (w *vCountWriter) Write(b []byte) (int, error) { w.n += int64(len(b)); return len(b), nil }

var vBody int64
var vHasCL, vHasCR, vCLbad bool
var vCL int64

// models of the header access and integer parsing: a Content-Length may be present (any value
// the transport accepts: >= 0) or absent; when present the transport delivers at most that many
// body bytes. A Content-Range may be present (its parse is cut: any values).
func vHeaderGet(h http.Header, key string) string {
	if (key == "Content-Length" && vHasCL) || (key == "Content-Range" && vHasCR) {
		return "v"
	}
	return ""
}
func vParseInt(s string, base int, bits int) (int64, error) {
	if vCLbad {
		return 0, ErrParse
	}
	return vCL, nil
}

// vCopy stands in for io.Copy under H_C14_get: the reply body is a stream of vBody bytes (any
// length: the transport does not bound a chunked body); a LimitedReader caps what is copied.
func vCopy(dst io.Writer, src io.Reader) (int64, error) {
	n := vBody
	if lr, ok := src.(*io.LimitedReader); ok {
		if lr.N < n {
			n = lr.N
		}
		if n < 0 {
			n = 0
		}
	}
	dst.(*vCountWriter).n += n
	return n, nil
}

// H_C14_get: one GetRight / Hoffman fetch of `length` bytes with the HTTP exchange as
// environment: ANY status, ANY headers (Content-Length / Content-Range parse to any values or
// fail), a body of ANY length: never more than the requested number of bytes is handed to the
// torrent writer, and the count returned is what was written.
func H_C14_get() {
	flength, offset, length := vI64("flength"), vI64("offset"), vI64("length")
	vAssume(flength >= 0 && flength <= int64(1)<<40 && offset >= 0 && length >= 1 && length <= int64(1)<<22 && offset <= flength && length <= flength-offset)
	vBody = vI64("body")
	vAssume(vBody >= 0 && vBody <= int64(1)<<41)
	vHasCL, vHasCR, vCLbad = vBool("has-content-length"), vBool("has-content-range"), vBool("bad-content-length")
	vCL = vI64("content-length")
	vAssume(vCL >= 0)
	vAssume(vImp(vAnd(vHasCL, !vCLbad), vBody <= vCL)) // the transport enforces an announced Content-Length
	w := &vCountWriter{}
	var n int64
	var err error
	if vParam("kind") == 0 {
		ws := &GetRight{base{url: "http://ws/"}}
		n, err = ws.Get(context.Background(), "", "name", []string{"f"}, flength, offset, length, w)
	} else {
		vAssume(length <= 1<<20 && offset <= 1<<30)
		ws := &Hoffman{base{url: "http://ws/"}}
		n, err = ws.Get(context.Background(), "", make([]byte, 20), 0, uint32(offset), uint32(length), w)
	}
	if err != nil {
		vReach("refused")
		vAssert(w.n == 0, "a refused reply stores nothing")
		return
	}
	vReach("fetched")
	vAssert(n == w.n, "the count returned is what was written")
	vAssert(w.n <= length, "never more than the requested range is written, whatever the server sends")
}
