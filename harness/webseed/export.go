//go:build verif

package webseed

// VNew builds a web seed without parsing the URL.
func VNew(url string, getright bool) Webseed {
	if getright {
		return &GetRight{base{url: url}}
	}
	return &Hoffman{base{url: url}}
}
