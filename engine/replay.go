package main

import (
	"context"
	"encoding/json"
	"fmt"
	"os"
	"os/exec"
	"path/filepath"
	"sort"
	"strings"
	"time"
)

// nativePrelude: the harness primitives compiled natively read their values from a
// table filled from a solver model, so the same harness is the replay.
const nativePrelude = `//go:build verif

package %s

import (
	"context"
	"crypto/rc4"
	"crypto/sha1"
	"strconv"

	"github.com/zeebo/bencode"
)

type vCase struct {
	I       int                          ` + "`json:\"i\"`" + `
	Harness string                       ` + "`json:\"harness\"`" + `
	Params  map[string]int64             ` + "`json:\"params\"`" + `
	Scalars map[string]uint64            ` + "`json:\"scalars\"`" + `
	Arrays  map[string]map[string]uint64 ` + "`json:\"arrays\"`" + `
	Fresh   map[string][]uint64          ` + "`json:\"fresh\"`" + `
}

type vStop struct{ why string }

var vCur *vCase
var vReached []string
var vFailed string

func vU8(name string) uint8   { return uint8(vCur.Scalars[name]) }
func vU16(name string) uint16 { return uint16(vCur.Scalars[name]) }
func vU32(name string) uint32 { return uint32(vCur.Scalars[name]) }
func vU64(name string) uint64 { return vCur.Scalars[name] }
func vI64(name string) int64  { return int64(vCur.Scalars[name]) }
func vInt(name string) int    { return int(vCur.Scalars[name]) }
func vBool(name string) bool  { return vCur.Scalars[name] != 0 }
func vBytes(name string, max int) []byte {
	n := int(vCur.Scalars[name+".len"])
	if n < 0 || n > max {
		panic(vStop{"assume"})
	}
	b := make([]byte, n)
	for k, v := range vCur.Arrays[name] {
		i, _ := strconv.ParseUint(k, 10, 64)
		if i < uint64(n) {
			b[i] = byte(v)
		}
	}
	return b
}
func vString(name string, max int) string { return string(vBytes(name, max)) }
func vAssume(c bool) {
	if !c {
		panic(vStop{"assume"})
	}
}
func vAssert(c bool, msg string) {
	if len(msg) > 6 && msg[:6] == "ghost:" {
		return // depends on a ghost observation only the engine has
	}
	if !c {
		vFailed = msg
		panic(vStop{"assert"})
	}
}
func vReach(label string)    { vReached = append(vReached, label) }
func vParam(name string) int { return int(vCur.Params[name]) }
func vChoose(name string, lo, hi int) int {
	l := vCur.Fresh["choose:"+name]
	if len(l) == 0 {
		return lo
	}
	vCur.Fresh["choose:"+name] = l[1:]
	return int(l[0])
}
func vFreshInt(name string) int {
	l := vCur.Fresh[name]
	if len(l) == 0 {
		return 0
	}
	vCur.Fresh[name] = l[1:]
	return int(l[0])
}
func vEnvChan() chan struct{}           { return make(chan struct{}) }
func vJoin()                            {}
func vMaxAlloc() int                    { return 0 }
func vAllocMark()                       {}
func vStreamPos() int                   { return 0 }
func vEffects() int                     { return 0 }
func vEffect(kind string) int           { return 0 }
func vNow() int64                       { return 0 }
func vSha1Eq(a []byte, b []byte) bool   { h := sha1.Sum(a); return string(h[:]) == string(b) }
func vFreed(b []byte) bool              { return false }
func vLive(b []byte) bool               { return true }
func vDeadlocked() bool                 { return false }
func vNondetErr(name string) error      { return nil }
func vHavocBytes(b []byte, name string) {}
func vLiveContext() context.Context { return context.Background() }
func vUnsafeClass(k int)        {}
func vTickers(mask, budget int) {}
func vCipherPos(c *rc4.Cipher) int { return 0 }
func vOutUnsafe() bool          { return false }
func vLastEncoded() interface{} { return nil }
func vAnd(a, b bool) bool       { return a && b }
func vOr(a, b bool) bool        { return a || b }
func vImp(a, b bool) bool       { return !a || b }
func vIte(c bool, a, b int) int {
	if c {
		return a
	}
	return b
}
func vBencode(v interface{}) []byte {
	b, err := bencode.EncodeBytes(v)
	if err != nil {
		panic(vStop{"assume"})
	}
	return b
}
`

const nativeTest = `//go:build verif

package %s

import (
	"encoding/json"
	"fmt"
	"os"
	"testing"
)

var vHarnesses = map[string]func(){
%s}

type vResult struct {
	I       int      ` + "`json:\"i\"`" + `
	Reached []string ` + "`json:\"reached\"`" + `
	Failed  string   ` + "`json:\"failed\"`" + `
	Panic   string   ` + "`json:\"panic\"`" + `
	Assume  bool     ` + "`json:\"assume_failed\"`" + `
	Done    bool     ` + "`json:\"done\"`" + `
}

func vRunCase(c *vCase) (res vResult) {
	vCur, vReached, vFailed = c, nil, ""
	res.I = c.I
	defer func() {
		res.Reached, res.Failed = vReached, vFailed
		if r := recover(); r != nil {
			if s, ok := r.(vStop); ok {
				res.Assume = s.why == "assume"
			} else {
				res.Panic = fmt.Sprint(r)
			}
		}
	}()
	h := vHarnesses[c.Harness]
	if h == nil {
		res.Panic = "no such harness"
		return
	}
	h()
	res.Done = true
	return
}

func TestVerifReplay(t *testing.T) {
	b, err := os.ReadFile(os.Getenv("VERIF_REPLAY_CASES"))
	if err != nil {
		t.Skip("no cases")
	}
	var cases []*vCase
	if err := json.Unmarshal(b, &cases); err != nil {
		t.Fatal(err)
	}
	only := os.Getenv("VERIF_REPLAY_ONLY")
	for _, c := range cases {
		if only != "" && fmt.Sprint(c.I) != only {
			continue
		}
		fmt.Printf("VERIF-CASE-START %%d\n", c.I)
		r := vRunCase(c)
		j, _ := json.Marshal(r)
		fmt.Printf("VERIF-REPLAY %%s\n", j)
	}
}
`

type nativeCase struct {
	I       int                          `json:"i"`
	Harness string                       `json:"harness"`
	Params  map[string]int64             `json:"params"`
	Scalars map[string]uint64            `json:"scalars"`
	Arrays  map[string]map[string]uint64 `json:"arrays"`
	Fresh   map[string][]uint64          `json:"fresh"`
}

type nativeResult struct {
	I       int      `json:"i"`
	Reached []string `json:"reached"`
	Failed  string   `json:"failed"`
	Panic   string   `json:"panic"`
	Assume  bool     `json:"assume_failed"`
	Done    bool     `json:"done"`
	Crashed bool     `json:"crashed"`
	Output  string   `json:"-"`
}

func mkCase(i int, cfg HarnessCfg, m *Model) nativeCase {
	c := nativeCase{I: i, Harness: cfg.Func, Params: cfg.Params, Scalars: map[string]uint64{}, Arrays: map[string]map[string]uint64{}, Fresh: map[string][]uint64{}}
	if m == nil {
		return c
	}
	type fv struct {
		n int
		v uint64
	}
	fresh := map[string][]fv{}
	for k, v := range m.Scalars {
		if j := strings.LastIndex(k, "!"); j >= 0 {
			var n int
			fmt.Sscan(k[j+1:], &n)
			fresh[k[:j]] = append(fresh[k[:j]], fv{n, v})
			continue
		}
		c.Scalars[k] = v
	}
	for p, l := range fresh {
		sort.Slice(l, func(a, b int) bool { return l[a].n < l[b].n })
		for _, x := range l {
			c.Fresh[p] = append(c.Fresh[p], x.v)
		}
	}
	for a, cells := range m.Arrays {
		mm := map[string]uint64{}
		for k, v := range cells {
			mm[fmt.Sprint(k)] = v
		}
		c.Arrays[a] = mm
	}
	return c
}

type replayFile struct {
	Property   string     `json:"property"`
	Harness    HarnessCfg `json:"harness"`
	Obligation string     `json:"obligation"`
	Kind       string     `json:"kind"`
	Msg        string     `json:"msg"`
	Pos        string     `json:"pos"`
	Func       string     `json:"func"`
	Stack      []string   `json:"stack,omitempty"`
	Sched      []int      `json:"sched,omitempty"`
	Model      *Model     `json:"model"`
	Confirmed  string     `json:"confirmed"`
	NativeOut  string     `json:"native_output,omitempty"`
	Howto      string     `json:"howto"`
}

func goEnv() []string {
	return append(os.Environ(), "CGO_ENABLED=0", "GOFLAGS=-mod=mod", "GOPROXY=off", "GOSUMDB=off", "GOTOOLCHAIN=local")
}

// buildNative compiles the test binary of pkg with the harness overlay. Returns the binary path.
func buildNative(tmp, pkg string, harnessFuncs []string) (string, error) {
	hf, err := harnessFiles()
	if err != nil {
		return "", err
	}
	ov := map[string]string{}
	tag := strings.ReplaceAll(pkg, "/", "_")
	// every harness directory is overlaid (harnesses of one package use accessors injected into others)
	for dir, files := range hf {
		if dir == "zz_verif_model" {
			continue
		}
		for _, f := range files {
			ov[filepath.Join(repoDir, dir, "zz_verif_"+filepath.Base(f))] = f
		}
		pre := filepath.Join(tmp, tag+"_"+strings.ReplaceAll(dir, "/", "_")+"_prelude.go")
		os.WriteFile(pre, []byte(fmt.Sprintf(nativePrelude, pkgNameOf(dir))), 0644)
		ov[filepath.Join(repoDir, dir, "zz_verif_prelude.go")] = pre
	}
	var sb strings.Builder
	sort.Strings(harnessFuncs)
	for _, h := range harnessFuncs {
		fmt.Fprintf(&sb, "\t%q: %s,\n", h, h)
	}
	tst := filepath.Join(tmp, tag+"_replay_test.go")
	os.WriteFile(tst, []byte(fmt.Sprintf(nativeTest, pkgNameOf(pkg), sb.String())), 0644)
	ov[filepath.Join(repoDir, pkg, "zz_verif_replay_test.go")] = tst
	ovb, _ := json.Marshal(map[string]interface{}{"Replace": ov})
	ovf := filepath.Join(tmp, tag+"_overlay.json")
	os.WriteFile(ovf, ovb, 0644)
	bin := filepath.Join(tmp, tag+".test")
	ctx, cancel := context.WithTimeout(context.Background(), 10*time.Minute)
	defer cancel()
	cmd := exec.CommandContext(ctx, "go", "test", "-c", "-tags", "verif", "-vet=off", "-overlay", ovf, "-o", bin, "./"+pkg)
	cmd.Dir = repoDir
	cmd.Env = goEnv()
	out, err := cmd.CombinedOutput()
	if err != nil {
		return "", fmt.Errorf("native build of %s failed: %v\n%s", pkg, err, firstLines(string(out), 20))
	}
	return bin, nil
}

func runNative(bin, pkg, casesFile, only string, timeout time.Duration) (map[int]nativeResult, string) {
	ctx, cancel := context.WithTimeout(context.Background(), timeout)
	defer cancel()
	cmd := exec.CommandContext(ctx, bin, "-test.run", "TestVerifReplay", "-test.timeout", fmt.Sprint(timeout))
	cmd.Dir = filepath.Join(repoDir, pkg)
	cmd.Env = append(os.Environ(), "VERIF_REPLAY_CASES="+casesFile, "VERIF_REPLAY_ONLY="+only)
	out, _ := cmd.CombinedOutput()
	res := map[int]nativeResult{}
	for _, l := range strings.Split(string(out), "\n") {
		if strings.HasPrefix(l, "VERIF-REPLAY ") {
			var r nativeResult
			if json.Unmarshal([]byte(l[len("VERIF-REPLAY "):]), &r) == nil {
				res[r.I] = r
			}
		}
	}
	return res, string(out)
}

// nativeReplays replays (a) one witness per reach label of every native harness and (b) every
// candidate violation of a native harness against the real build. It returns the number of
// traces whose native run matched the engine's prediction and a list of witness mismatches.
func nativeReplays(prop string, results []HarnessResult, viols []*violation) (int, []string) {
	type job struct {
		c     nativeCase
		label string     // witness: label expected
		v     *violation // violation expected
		id    string
	}
	byPkg := map[string][]*job{}
	funcs := map[string]map[string]bool{}
	n := 0
	addFunc := func(pkg, f string) {
		if funcs[pkg] == nil {
			funcs[pkg] = map[string]bool{}
		}
		funcs[pkg][f] = true
	}
	if os.Getenv("GOSYM_NOWITNESS") == "" {
		for _, r := range results {
			if !r.Cfg.Native || r.Error != "" {
				continue
			}
			var ls []string
			for l := range r.Witness {
				ls = append(ls, l)
			}
			sort.Strings(ls)
			// distinct models only
			seen := map[*Model]bool{}
			for _, l := range ls {
				m := r.Witness[l]
				if m == nil || seen[m] || m.Stubbed {
					continue
				}
				seen[m] = true
				byPkg[r.Cfg.Pkg] = append(byPkg[r.Cfg.Pkg], &job{c: mkCase(n, r.Cfg, m), label: l, id: r.ID})
				addFunc(r.Cfg.Pkg, r.Cfg.Func)
				n++
			}
		}
	}
	for _, v := range viols {
		if v.Cfg.Native && !v.Outcome.Imprecise && !v.Outcome.Stubbed && v.Outcome.Kind != "blocked" && !strings.HasPrefix(v.Outcome.Msg, "ghost:") {
			byPkg[v.Cfg.Pkg] = append(byPkg[v.Cfg.Pkg], &job{c: mkCase(n, v.Cfg, v.Outcome.Model), v: v, id: v.ID})
			addFunc(v.Cfg.Pkg, v.Cfg.Func)
			n++
		}
	}
	validated := 0
	var mismatches []string
	if len(byPkg) > 0 {
		tmp, err := os.MkdirTemp("", "gosym-replay-")
		if err == nil {
			defer os.RemoveAll(tmp)
			for pkg, jobs := range byPkg {
				var fl []string
				for f := range funcs[pkg] {
					fl = append(fl, f)
				}
				bin, err := buildNative(tmp, pkg, fl)
				if err != nil {
					mismatches = append(mismatches, err.Error())
					continue
				}
				var cases []nativeCase
				for _, j := range jobs {
					cases = append(cases, j.c)
				}
				cf := filepath.Join(tmp, strings.ReplaceAll(pkg, "/", "_")+"_cases.json")
				b, _ := json.Marshal(cases)
				os.WriteFile(cf, b, 0644)
				// witnesses in one process; violations one process each (a crash must not take the others down)
				var res map[int]nativeResult
				hasW := false
				for _, j := range jobs {
					if j.v == nil {
						hasW = true
					}
				}
				if hasW {
					res, _ = runNative(bin, pkg, cf, "", 5*time.Minute)
				}
				for _, j := range jobs {
					if j.v != nil {
						r1, out := runNative(bin, pkg, cf, fmt.Sprint(j.c.I), 2*time.Minute)
						r, ok := r1[j.c.I]
						if !ok {
							r = nativeResult{I: j.c.I, Crashed: true}
						}
						r.Output = lastLines(out, 30)
						reproduced := false
						switch j.v.Outcome.Kind {
						case "assert":
							reproduced = r.Failed == j.v.Outcome.Msg
						case "panic":
							reproduced = r.Panic != "" || (r.Crashed && strings.Contains(out, "VERIF-CASE-START"))
						}
						if reproduced {
							j.v.Confirmed = "native"
							validated++
						} else {
							j.v.Confirmed = "unconfirmed"
						}
						writeReplayFile(prop, j.v, r.Output)
						continue
					}
					r, ok := res[j.c.I]
					if !ok {
						// rerun alone (an earlier case may have crashed the process)
						r1, _ := runNative(bin, pkg, cf, fmt.Sprint(j.c.I), 2*time.Minute)
						r, ok = r1[j.c.I]
					}
					has := false
					bare := j.label
					if k := strings.Index(bare, ":"); k >= 0 {
						bare = bare[k+1:]
					}
					for _, l := range r.Reached {
						if l == bare {
							has = true
						}
					}
					if ok && has && r.Failed == "" && r.Panic == "" && !r.Assume {
						validated++
					} else {
						mismatches = append(mismatches, fmt.Sprintf("%s label %q: native run reached=%v failed=%q panic=%q assume_failed=%v ran=%v", j.id, j.label, r.Reached, r.Failed, r.Panic, r.Assume, ok))
					}
				}
			}
		}
	}
	// violations of harnesses that have no native counterpart: the solver's model on the real
	// SSA stands, unless the path went through an unmodelled (havoc'd) call
	for _, v := range viols {
		if v.Confirmed != "" {
			continue
		}
		if v.Outcome.Imprecise {
			v.Confirmed = "unconfirmed"
		} else {
			v.Confirmed = "engine"
		}
		writeReplayFile(prop, v, "")
	}
	return validated, mismatches
}

func lastLines(s string, n int) string {
	ls := strings.Split(strings.TrimRight(s, "\n"), "\n")
	if len(ls) > n {
		ls = ls[len(ls)-n:]
	}
	return strings.Join(ls, "\n")
}

var replaySeq = map[string]int{}

// replayDir: where counterexample records are written (GOSYM_REPLAY_DIR for scratch runs)
func replayDir() string {
	if d := os.Getenv("GOSYM_REPLAY_DIR"); d != "" {
		return d
	}
	return filepath.Join(verifDir, "replays")
}

func writeReplayFile(prop string, v *violation, nativeOut string) {
	replaySeq[v.Cfg.Func]++
	name := fmt.Sprintf("%s-%s-%d.json", prop, v.Cfg.Func, replaySeq[v.Cfg.Func])
	p := filepath.Join(replayDir(), name)
	rf := replayFile{Property: prop, Harness: v.Cfg, Obligation: v.Obligation, Kind: v.Outcome.Kind, Msg: v.Outcome.Msg, Pos: v.Outcome.Pos, Func: v.Outcome.Func,
		Stack: v.Outcome.Stack, Sched: v.Outcome.Sched, Model: v.Outcome.Model, Confirmed: v.Confirmed, NativeOut: nativeOut,
		Howto: "cd /verif && ./check replay " + p}
	b, _ := json.MarshalIndent(rf, "", " ")
	os.WriteFile(p, b, 0644)
	v.Replay = p
}

// replayMain re-runs one recorded counterexample: natively when the harness has a native
// counterpart, otherwise by re-executing the harness in the engine with every named input
// pinned to the recorded value.
func replayMain(args []string) int {
	if len(args) < 1 {
		fmt.Println("usage: gosym replay <file>")
		return 2
	}
	b, err := os.ReadFile(args[0])
	if err != nil {
		fmt.Println(err)
		return 2
	}
	var rf replayFile
	if err := json.Unmarshal(b, &rf); err != nil {
		fmt.Println(err)
		return 2
	}
	v := &violation{Harness: rf.Harness.Pkg + "." + rf.Harness.Func, ID: rf.Harness.ID(), Obligation: rf.Obligation, Cfg: rf.Harness,
		Outcome: OutcomeJ{Kind: rf.Kind, Msg: rf.Msg, Pos: rf.Pos, Func: rf.Func, Model: rf.Model}}
	if rf.Harness.Native && rf.Kind != "blocked" {
		tmp, _ := os.MkdirTemp("", "gosym-replay-")
		defer os.RemoveAll(tmp)
		bin, err := buildNative(tmp, rf.Harness.Pkg, []string{rf.Harness.Func})
		if err != nil {
			fmt.Println(err)
			return 2
		}
		cases := []nativeCase{mkCase(0, rf.Harness, rf.Model)}
		cf := filepath.Join(tmp, "cases.json")
		cb, _ := json.Marshal(cases)
		os.WriteFile(cf, cb, 0644)
		res, out := runNative(bin, rf.Harness.Pkg, cf, "0", 2*time.Minute)
		fmt.Println(lastLines(out, 40))
		r, ok := res[0]
		if (rf.Kind == "assert" && r.Failed == rf.Msg) || (rf.Kind == "panic" && (r.Panic != "" || !ok)) {
			fmt.Printf("REPRODUCED natively: %s %q\n", rf.Kind, rf.Msg)
			return 1
		}
		fmt.Println("not reproduced natively")
		return 0
	}
	// engine-concrete
	cfg := rf.Harness
	cfg.Pin = rf.Model
	prog, err := loadProgram([]string{"./" + cfg.Pkg, "./zz_verif_model"})
	if err != nil {
		fmt.Println(err)
		return 2
	}
	res := runHarness(prog, cfg)
	for _, o := range res.Outcomes {
		if obligationOf(o) == v.Obligation {
			fmt.Printf("REPRODUCED in the engine with all named inputs pinned: %s at %s\n", v.Obligation, o.Pos)
			return 1
		}
	}
	fmt.Println("not reproduced")
	return 0
}
