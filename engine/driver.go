package main

import (
	"bufio"
	"encoding/json"
	"fmt"
	"os"
	"os/exec"
	"path/filepath"
	"regexp"
	"sort"
	"strconv"
	"strings"
	"sync"
	"time"
)

type HarnessSpec struct {
	HarnessCfg
	ParamsList     []map[string]int64 `json:"params_list,omitempty"`
	ParamsThorough []map[string]int64 `json:"params_thorough,omitempty"`
	LoopThorough   int                `json:"loop_thorough,omitempty"`
	PreemptThorough int               `json:"preempt_thorough,omitempty"`
}

type CheckSpec struct {
	Property    string            `json:"property"`
	Title       string            `json:"title"`
	Assumptions []string          `json:"assumptions"`
	Bounds      map[string]string `json:"bounds"`
	Outside     []string          `json:"outside"`
	Harnesses   []HarnessSpec     `json:"harnesses"`
}

type Finding struct {
	Kind       string // finding | fixed
	Property   string
	Harness    string
	Obligation string
	What       string
	Commit     string
}

var kvRe = regexp.MustCompile(`(\w+)=("([^"]*)"|\S+)`)

func loadFindings() []Finding {
	b, err := os.ReadFile(filepath.Join(verifDir, "known_findings.txt"))
	if err != nil {
		return nil
	}
	var out []Finding
	for _, l := range strings.Split(string(b), "\n") {
		l = strings.TrimSpace(l)
		if l == "" || strings.HasPrefix(l, "#") {
			continue
		}
		var f Finding
		switch {
		case strings.HasPrefix(l, "finding:"):
			f.Kind = "finding"
		case strings.HasPrefix(l, "fixed:"):
			f.Kind = "fixed"
		default:
			continue
		}
		for _, m := range kvRe.FindAllStringSubmatch(l, -1) {
			v := m[2]
			if strings.HasPrefix(v, "\"") {
				v = m[3]
			}
			switch m[1] {
			case "property":
				f.Property = v
			case "harness":
				f.Harness = v
			case "obligation":
				f.Obligation = v
			case "what":
				f.What = v
			case "commit":
				f.Commit = v
			}
		}
		out = append(out, f)
	}
	return out
}

func shortFunc(f string) string {
	// "(*github.com/jech/storrent/bitmap.Bitmap).Extend" -> "(*bitmap.Bitmap).Extend"
	return strings.ReplaceAll(f, modPath+"/", "")
}

func obligationOf(o OutcomeJ) string {
	switch o.Kind {
	case "assert":
		return "assert:" + o.Msg
	default:
		return o.Kind + ":" + o.Msg + "@" + shortFunc(o.Func)
	}
}

type violation struct {
	Harness    string
	ID         string
	Obligation string
	Outcome    OutcomeJ
	Cfg        HarnessCfg
	Replay     string
	Confirmed  string // native | engine | unconfirmed
	Known      *Finding
}

func expand(spec *CheckSpec, tier string) []HarnessCfg {
	var jobs []HarnessCfg
	for _, h := range spec.Harnesses {
		if h.Tier == "thorough" && tier != "thorough" {
			continue
		}
		base := h.HarnessCfg
		if tier == "thorough" {
			if h.LoopThorough > 0 {
				base.Loop = h.LoopThorough
			}
			if h.PreemptThorough > 0 {
				base.Preempt = h.PreemptThorough
			}
			if base.TimeoutS > 0 {
				base.TimeoutS *= 4
			}
		}
		pl := append([]map[string]int64(nil), h.ParamsList...)
		if tier == "thorough" {
			pl = append(pl, h.ParamsThorough...)
		}
		if len(pl) == 0 {
			jobs = append(jobs, base)
			continue
		}
		for _, p := range pl {
			c := base
			c.Params = map[string]int64{}
			for k, v := range base.Params {
				c.Params[k] = v
			}
			for k, v := range p {
				c.Params[k] = v
			}
			jobs = append(jobs, c)
		}
	}
	return jobs
}

func runJobs(jobs []HarnessCfg, workers int) []HarnessResult {
	pkgset := map[string]bool{}
	for _, j := range jobs {
		pkgset["./"+j.Pkg] = true
	}
	pkgset["./zz_verif_model"] = true
	var pats []string
	for p := range pkgset {
		pats = append(pats, p)
	}
	sort.Strings(pats)
	if workers > len(jobs) {
		workers = len(jobs)
	}
	results := make([]HarnessResult, len(jobs))
	var mu sync.Mutex
	next := 0
	var wg sync.WaitGroup
	self, _ := os.Executable()
	for w := 0; w < workers; w++ {
		wg.Add(1)
		go func() {
			defer wg.Done()
			var cmd *exec.Cmd
			var in *bufio.Writer
			var out *bufio.Scanner
			start := func() error {
				cmd = exec.Command(self, append([]string{"worker"}, pats...)...)
				cmd.Stderr = os.Stderr
				ip, _ := cmd.StdinPipe()
				op, _ := cmd.StdoutPipe()
				if err := cmd.Start(); err != nil {
					return err
				}
				in = bufio.NewWriter(ip)
				out = bufio.NewScanner(op)
				out.Buffer(make([]byte, 1<<20), 1<<30)
				return nil
			}
			if err := start(); err != nil {
				return
			}
			defer func() { cmd.Process.Kill(); cmd.Wait() }()
			for {
				mu.Lock()
				i := next
				next++
				mu.Unlock()
				if i >= len(jobs) {
					return
				}
				b, _ := json.Marshal(jobs[i])
				in.Write(b)
				in.WriteByte('\n')
				in.Flush()
				if out.Scan() {
					var r HarnessResult
					if err := json.Unmarshal(out.Bytes(), &r); err != nil {
						r = HarnessResult{ID: jobs[i].ID(), Cfg: jobs[i], Error: "bad worker output: " + err.Error()}
					}
					results[i] = r
				} else {
					results[i] = HarnessResult{ID: jobs[i].ID(), Cfg: jobs[i], Error: "worker died (out of memory or crash)"}
					cmd.Process.Kill()
					cmd.Wait()
					if err := start(); err != nil {
						return
					}
				}
			}
		}()
	}
	wg.Wait()
	return results
}

func checkMain(args []string) int {
	if len(args) < 1 {
		fmt.Println("usage: gosym check <Cxx> [quick|thorough]")
		return 2
	}
	prop := args[0]
	tier := "quick"
	if len(args) > 1 {
		tier = args[1]
	}
	if t := os.Getenv("VERIF_TIER"); t == "quick" || t == "thorough" {
		if len(args) < 2 {
			tier = t
		}
	}
	seed := 0
	if s := os.Getenv("VERIF_SEED"); s != "" {
		seed, _ = strconv.Atoi(s)
	}
	t0 := time.Now()
	b, err := os.ReadFile(filepath.Join(verifDir, "checks", prop+".json"))
	if err != nil {
		fmt.Println("ERROR:", err)
		return 2
	}
	var spec CheckSpec
	if err := json.Unmarshal(b, &spec); err != nil {
		fmt.Println("ERROR: bad spec:", err)
		return 2
	}
	jobs := expand(&spec, tier)
	only := os.Getenv("GOSYM_ONLY")
	if only != "" {
		var f []HarnessCfg
		for _, j := range jobs {
			if strings.Contains(j.ID(), only) {
				f = append(f, j)
			}
		}
		jobs = f
	}
	workers := 16
	if w := os.Getenv("GOSYM_WORKERS"); w != "" {
		workers, _ = strconv.Atoi(w)
	}
	fmt.Printf("check %s tier=%s: %d harness instances on %d workers\n", prop, tier, len(jobs), workers)
	results := runJobs(jobs, workers)

	findings := loadFindings()
	var viols []*violation
	engineErrors := 0
	undecided := 0
	unwind := 0
	vacuous := []string{}
	// labels per harness func: union over instances
	labelsWanted := map[string]map[string]bool{}
	labelsReached := map[string]map[string]bool{}
	for _, r := range results {
		hk := r.Cfg.Pkg + "." + r.Cfg.Func
		lk := r.Cfg.Pkg // labels are qualified by the function that contains the vReach call
		if labelsWanted[lk] == nil {
			labelsWanted[lk] = map[string]bool{}
			labelsReached[lk] = map[string]bool{}
		}
		for _, l := range r.Labels {
			labelsWanted[lk][l] = true
		}
		for _, l := range r.Reached {
			labelsReached[lk][l] = true
		}
		if r.Error != "" {
			engineErrors++
			fmt.Printf("ERROR harness=%s: %s\n", r.ID, firstLines(r.Error, 12))
			continue
		}
		if r.Cross.Disagree > 0 {
			engineErrors++
			fmt.Printf("ERROR harness=%s: cross-solver disagreement: %v\n", r.ID, r.Cross.Detail)
		}
		for _, o := range r.Outcomes {
			switch o.Kind {
			case "undecided":
				undecided++
				fmt.Printf("UNDECIDED harness=%s: %s\n", r.ID, o.Msg)
			case "unwind":
				if r.Cfg.UnwindIsViolation {
					o.Kind = "blocked"
					o.Msg = "does not terminate within the loop bound: " + o.Msg
					viols = append(viols, &violation{Harness: hk, ID: r.ID, Obligation: "blocked:does not terminate within the loop bound@" + shortFunc(o.Func), Outcome: o, Cfg: r.Cfg})
					continue
				}
				unwind++
				fmt.Printf("UNWIND harness=%s: %s (bound insufficient; not counted as discharged)\n", r.ID, o.Msg)
			case "assert", "panic", "blocked":
				v := &violation{Harness: hk, ID: r.ID, Obligation: obligationOf(o), Outcome: o, Cfg: r.Cfg}
				viols = append(viols, v)
			}
		}
	}
	for hk, want := range labelsWanted {
		for l := range want {
			if !labelsReached[hk][l] {
				vacuous = append(vacuous, hk+":"+l)
			}
		}
	}
	sort.Strings(vacuous)

	// known findings
	for _, v := range viols {
		for i := range findings {
			f := &findings[i]
			if f.Kind == "finding" && f.Property == prop && (f.Harness == "" || f.Harness == v.Harness) && f.Obligation == v.Obligation {
				v.Known = f
			}
		}
	}
	// confirm the others
	var toReplay []*violation
	for _, v := range viols {
		if v.Known == nil {
			toReplay = append(toReplay, v)
		}
	}
	os.MkdirAll(replayDir(), 0755)
	// witness replays (validation of the translator) + violation replays, natively, one go test per package
	validated, witnessMismatch := nativeReplays(prop, results, toReplay)
	for _, m := range witnessMismatch {
		fmt.Printf("WARNING witness replay mismatch: %s\n", m)
	}
	nviol := 0
	unconfirmed := 0
	knownPrinted := map[string]bool{}
	for _, v := range viols {
		if v.Known != nil {
			k := v.Known.Harness + "|" + v.Known.Obligation
			if !knownPrinted[k] {
				knownPrinted[k] = true
				fmt.Printf("KNOWN-FINDING: property=%s harness=%s obligation=%q %s\n", prop, v.Harness, v.Obligation, v.Known.What)
			}
			continue
		}
		switch v.Confirmed {
		case "native", "engine":
			nviol++
			fmt.Printf("VIOLATION property=%s replay=%s\n", prop, v.Replay)
			fmt.Printf("  harness=%s obligation=%q at %s confirmed=%s\n", v.ID, v.Obligation, v.Outcome.Pos, v.Confirmed)
			fmt.Printf("  inputs: %s\n", modelSummary(v.Outcome.Model))
		default:
			unconfirmed++
			fmt.Printf("UNCONFIRMED harness=%s obligation=%q at %s (solver counterexample did not reproduce natively or lies on an imprecise path; not reported)\n", v.ID, v.Obligation, v.Outcome.Pos)
		}
	}
	for _, v := range vacuous {
		fmt.Printf("VACUOUS label never reached: %s\n", v)
	}
	hv := map[string]bool{}
	for _, r := range results {
		for _, i := range r.Intrinsics {
			if strings.HasPrefix(i, "HAVOC:") && !strings.Contains(i, "math/big") {
				hv[i] = true
			}
		}
	}
	if len(hv) > 0 {
		fmt.Printf("NOTE unmodelled callees (paths through them are imprecise: counterexamples there are not reported): %v\n", sortedKeys(hv))
	}
	writeEvidence(prop, tier, seed, &spec, results, viols, validated, nviol, unconfirmed, undecided, unwind, vacuous, engineErrors, time.Since(t0).Seconds())
	fmt.Printf("check %s tier=%s done in %.1fs: violations=%d known=%d unconfirmed=%d undecided=%d unwind=%d vacuous=%d errors=%d\n",
		prop, tier, time.Since(t0).Seconds(), nviol, len(knownPrinted), unconfirmed, undecided, unwind, len(vacuous), engineErrors)
	if nviol > 0 {
		return 1
	}
	if engineErrors > 0 {
		fmt.Println("ERROR: engine errors (see above)")
		return 2
	}
	if len(vacuous) > 0 || undecided > 0 || unwind > 0 {
		// an obligation that could not be decided at the registered bound is never a success
		if os.Getenv("GOSYM_STRICT") != "" {
			return 2
		}
	}
	return 0
}

func firstLines(s string, n int) string {
	ls := strings.Split(s, "\n")
	if len(ls) > n {
		ls = ls[:n]
	}
	return strings.Join(ls, "\n")
}

func modelSummary(m *Model) string {
	if m == nil {
		return "(none)"
	}
	var ms []string
	for n, v := range m.Scalars {
		if !strings.Contains(n, "!") || strings.HasPrefix(n, "choose:") {
			ms = append(ms, fmt.Sprintf("%s=%d", n, v))
		}
	}
	sort.Strings(ms)
	if len(ms) > 24 {
		ms = ms[:24]
	}
	return strings.Join(ms, " ")
}

func writeEvidence(prop, tier string, seed int, spec *CheckSpec, results []HarnessResult, viols []*violation, validated int, nviol, unconfirmed, undecided, unwind int, vacuous []string, engineErrors int, wall float64) {
	states, transitions := 0, 0
	q := map[string]int{}
	solverS := 0.0
	funcs := map[string]bool{}
	intr := map[string]bool{}
	cross := CrossResult{}
	var samples []interface{}
	obligations, discharged := 0, 0
	var instances []map[string]interface{}
	imprecise := 0
	for _, r := range results {
		states += r.Paths
		transitions += r.Blocks
		q["total"] += r.Queries
		q["sat"] += r.Sat
		q["unsat"] += r.Unsat
		q["unknown"] += r.Unknown
		solverS += r.SolverS
		imprecise += r.Imprecise
		for _, f := range r.Funcs {
			funcs[shortFunc(f)] = true
		}
		for _, f := range r.Intrinsics {
			intr[shortFunc(f)] = true
		}
		cross.VCs += r.Cross.VCs
		cross.Agree += r.Cross.Agree
		cross.Disagree += r.Cross.Disagree
		cross.Timeout += r.Cross.Timeout
		inst := map[string]interface{}{"id": r.ID, "paths": r.Paths, "queries": r.Queries, "wall_s": round1(r.WallS), "reached": r.Reached, "kinds": r.Kinds}
		if r.Error != "" {
			inst["error"] = firstLines(r.Error, 3)
		}
		if r.TimedOut {
			inst["timed_out"] = true
		}
		var obl []map[string]interface{}
		for _, a := range r.Asserts {
			obligations++
			verdict := "unsat(negation) on every path"
			if a.Failed > 0 {
				verdict = "sat: counterexample"
			} else if a.Unknown > 0 {
				verdict = "undecided"
			} else {
				discharged++
			}
			obl = append(obl, map[string]interface{}{"obligation": a.Msg, "paths_checked": a.Checked, "verdict": verdict})
		}
		// implicit obligation: no panic / no deadlock on any path
		obligations++
		bad := false
		for _, o := range r.Outcomes {
			if o.Kind == "panic" || o.Kind == "blocked" || o.Kind == "undecided" || o.Kind == "unwind" {
				bad = true
			}
		}
		if !bad && r.Error == "" {
			discharged++
		}
		inst["obligations"] = obl
		instances = append(instances, inst)
		if len(samples) < 12 && len(r.Asserts) > 0 {
			s := map[string]interface{}{"harness": r.ID, "obligation": r.Asserts[0].Msg, "paths_checked": r.Asserts[0].Checked}
			for l, m := range r.Witness {
				if m != nil {
					s["witness_label"] = l
					s["witness_inputs"] = modelSummary(m)
					break
				}
			}
			samples = append(samples, s)
		}
	}
	if len(samples) == 0 {
		samples = append(samples, map[string]interface{}{"note": "no harness completed"})
	}
	var known []string
	var vl []map[string]interface{}
	for _, v := range viols {
		if v.Known != nil {
			known = append(known, v.Harness+": "+v.Obligation)
		}
		vl = append(vl, map[string]interface{}{"harness": v.ID, "obligation": v.Obligation, "confirmed": v.Confirmed, "known": v.Known != nil, "inputs": modelSummary(v.Outcome.Model), "replay": v.Replay})
	}
	nontrivial := 0
	for _, r := range results {
		for _, a := range r.Asserts {
			if a.Failed == 0 && a.Unknown == 0 && a.Checked > 0 {
				nontrivial++
			}
		}
	}
	ev := map[string]interface{}{
		"property_id": prop, "tier": tier, "seed": seed, "level": "model_checking",
		"coverage": map[string]interface{}{
			"states": max1(states), "transitions": max1(transitions), "traces_validated_against_impl": validated,
			"samples":     samples,
			"evaluations": max1(q["total"]), "distinct_nontrivial": nontrivial,
			"rule":               "one state = one symbolic path of the real go/ssa code completed by the executor; one evaluation = one SMT query; distinct_nontrivial = harness assertions reached on at least one path and discharged (negation unsat) on every path that reaches them",
			"obligations":        obligations,
			"discharged":         discharged,
			"functions_encoded":  sortedKeys(funcs),
			"intrinsics_used":    sortedKeys(intr),
			"bounds":             spec.Bounds,
			"outside_the_claim":  spec.Outside,
			"queries":            q,
			"solver":             "z3 5.1.0 (z3-new) primary; final VCs re-decided by z3 4.8.12 and cvc5 1.0",
			"solver_time_s":      round1(solverS),
			"cross_solver":       cross,
			"unwinding_failures": unwind,
			"undecided":          undecided,
			"imprecise_paths":    imprecise,
			"unconfirmed":        unconfirmed,
			"vacuous_labels":     vacuous,
			"engine_errors":      engineErrors,
			"known_findings_matched": known,
			"violations_detail":  vl,
			"instances":          instances,
			"exhaustive":         false,
		},
		"assumptions": spec.Assumptions,
		"wall_s":      round1(wall),
		"violations":  nviol,
	}
	evdir := filepath.Join(verifDir, "evidence")
	if d := os.Getenv("GOSYM_EVIDENCE_DIR"); d != "" {
		evdir = d // used when the machinery itself is tested against seeded changes
	}
	os.MkdirAll(evdir, 0755)
	b, _ := json.MarshalIndent(ev, "", " ")
	os.WriteFile(filepath.Join(evdir, prop+".json"), b, 0644)
}

func round1(f float64) float64 { return float64(int(f*10+0.5)) / 10 }
func max1(i int) int {
	if i < 1 {
		return 1
	}
	return i
}
