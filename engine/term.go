package main

import (
	"fmt"
	"sort"
	"strings"
)

// ---- sorts ----
type SortKind int

const (
	SBool SortKind = iota
	SBV
	SArr // array (BV64 -> BV ElW)
)

type Sort struct {
	K   SortKind
	W   int // bv width, or element width for arrays
}

func (s Sort) String() string {
	switch s.K {
	case SBool:
		return "Bool"
	case SBV:
		return fmt.Sprintf("(_ BitVec %d)", s.W)
	default:
		return fmt.Sprintf("(Array (_ BitVec 64) (_ BitVec %d))", s.W)
	}
}

var BoolSort = Sort{SBool, 0}

func BV(w int) Sort { return Sort{SBV, w} }

// ---- terms ----
type Op int

const (
	OConst Op = iota
	OVar
	ONot
	OAnd
	OOr
	OIte
	OEq
	OAdd
	OSub
	OMul
	OUDiv
	OURem
	OSDiv
	OSRem
	OBAnd
	OBOr
	OBXor
	OShl
	OLshr
	OAshr
	OBNot
	ONeg
	OUlt
	OUle
	OSlt
	OSle
	OExtract // a=hi, b=lo
	OZext    // a=extra bits
	OSext
	OConcat
	OSelect
	OUF // name, args
	// array-level (never printed except AVar)
	OAVar
	OAConst
	OAStore
	OACopy // args: dst, dstOff, src, srcOff, n
	OAXor  // args: dst, dstOff, src, srcOff, ks, ksOff, n : dst[dstOff+i] = src[srcOff+i] xor ks[ksOff+i]
)

type Term struct {
	Op   Op
	S    Sort
	Args []*Term
	Val  uint64
	A, B int
	Name string
	id   int
}

var termTab = map[string]*Term{}
var termCount int

func key(op Op, s Sort, args []*Term, val uint64, a, b int, name string) string {
	var sb strings.Builder
	fmt.Fprintf(&sb, "%d|%d.%d|%d|%d.%d|%s|", op, s.K, s.W, val, a, b, name)
	for _, x := range args {
		fmt.Fprintf(&sb, "%d,", x.id)
	}
	return sb.String()
}

func mk(op Op, s Sort, args []*Term, val uint64, a, b int, name string) *Term {
	k := key(op, s, args, val, a, b, name)
	if t, ok := termTab[k]; ok {
		return t
	}
	termCount++
	t := &Term{op, s, args, val, a, b, name, termCount}
	termTab[k] = t
	return t
}

func mask(w int) uint64 {
	if w >= 64 {
		return ^uint64(0)
	}
	return (uint64(1) << uint(w)) - 1
}

func Const(w int, v uint64) *Term { return mk(OConst, BV(w), nil, v&mask(w), 0, 0, "") }

var True = mk(OConst, BoolSort, nil, 1, 0, 0, "")
var False = mk(OConst, BoolSort, nil, 0, 0, 0, "")

// resetTerms empties the hash-consing table (between harness runs) keeping the two
// boolean constants, whose identity the simplifier relies on.
func resetTerms() {
	termTab = map[string]*Term{}
	termTab[key(OConst, BoolSort, nil, 1, 0, 0, "")] = True
	termTab[key(OConst, BoolSort, nil, 0, 0, 0, "")] = False
}

func BoolC(b bool) *Term {
	if b {
		return True
	}
	return False
}
func Var(name string, s Sort) *Term { return mk(OVar, s, nil, 0, 0, 0, name) }
func (t *Term) IsConst() bool     { return t.Op == OConst }
func (t *Term) IsTrue() bool      { return t == True }
func (t *Term) IsFalse() bool     { return t == False }

func signed(v uint64, w int) int64 {
	if w < 64 && v&(1<<uint(w-1)) != 0 {
		return int64(v | ^mask(w))
	}
	return int64(v)
}

func Not(a *Term) *Term {
	if a.IsConst() {
		return BoolC(a.Val == 0)
	}
	if a.Op == ONot {
		return a.Args[0]
	}
	return mk(ONot, BoolSort, []*Term{a}, 0, 0, 0, "")
}

func And(xs ...*Term) *Term {
	var out []*Term
	seen := map[int]bool{}
	for _, x := range xs {
		if x.IsFalse() {
			return False
		}
		if x.IsTrue() || seen[x.id] {
			continue
		}
		if x.Op == OAnd {
			for _, y := range x.Args {
				if !seen[y.id] {
					seen[y.id] = true
					out = append(out, y)
				}
			}
			continue
		}
		seen[x.id] = true
		out = append(out, x)
	}
	for _, x := range out {
		if x.Op == ONot && seen[x.Args[0].id] {
			return False
		}
	}
	if len(out) == 0 {
		return True
	}
	if len(out) == 1 {
		return out[0]
	}
	sort.Slice(out, func(i, j int) bool { return out[i].id < out[j].id })
	return mk(OAnd, BoolSort, out, 0, 0, 0, "")
}

func Or(xs ...*Term) *Term {
	var ns []*Term
	for _, x := range xs {
		ns = append(ns, Not(x))
	}
	return Not(And(ns...))
}

func Ite(c, a, b *Term) *Term {
	if c.IsTrue() {
		return a
	}
	if c.IsFalse() {
		return b
	}
	if a == b {
		return a
	}
	if a.S.K == SBool {
		if a.IsTrue() && b.IsFalse() {
			return c
		}
		if a.IsFalse() && b.IsTrue() {
			return Not(c)
		}
	}
	return mk(OIte, a.S, []*Term{c, a, b}, 0, 0, 0, "")
}

func Eq(a, b *Term) *Term {
	if a == b {
		return True
	}
	if a.IsConst() && b.IsConst() {
		return BoolC(a.Val == b.Val)
	}
	if a.S.K == SBool {
		if b.IsTrue() {
			return a
		}
		if b.IsFalse() {
			return Not(a)
		}
		if a.IsTrue() {
			return b
		}
		if a.IsFalse() {
			return Not(b)
		}
	}
	if a.id > b.id {
		a, b = b, a
	}
	return mk(OEq, BoolSort, []*Term{a, b}, 0, 0, 0, "")
}

func bin(op Op, a, b *Term) *Term {
	w := a.S.W
	if a.S != b.S {
		panic(fmt.Sprintf("sort mismatch %v %v in op %d", a.S, b.S, op))
	}
	if a.IsConst() && b.IsConst() {
		x, y := a.Val, b.Val
		switch op {
		case OAdd:
			return Const(w, x+y)
		case OSub:
			return Const(w, x-y)
		case OMul:
			return Const(w, x*y)
		case OBAnd:
			return Const(w, x&y)
		case OBOr:
			return Const(w, x|y)
		case OBXor:
			return Const(w, x^y)
		case OUDiv:
			if y != 0 {
				return Const(w, x/y)
			}
		case OURem:
			if y != 0 {
				return Const(w, x%y)
			}
		case OSDiv:
			if y != 0 {
				return Const(w, uint64(signed(x, w)/signed(y, w)))
			}
		case OSRem:
			if y != 0 {
				return Const(w, uint64(signed(x, w)%signed(y, w)))
			}
		case OShl:
			if y >= uint64(w) {
				return Const(w, 0)
			}
			return Const(w, x<<y)
		case OLshr:
			if y >= uint64(w) {
				return Const(w, 0)
			}
			return Const(w, x>>y)
		case OAshr:
			if y >= uint64(w) {
				y = uint64(w - 1)
			}
			return Const(w, uint64(signed(x, w)>>y))
		}
	}
	switch op {
	case OAdd:
		if a.IsConst() && a.Val == 0 {
			return b
		}
		if b.IsConst() && b.Val == 0 {
			return a
		}
		// (x + c1) + c2
		if b.IsConst() && a.Op == OAdd && a.Args[1].IsConst() {
			return bin(OAdd, a.Args[0], Const(w, a.Args[1].Val+b.Val))
		}
		if a.IsConst() {
			a, b = b, a
		}
	case OSub:
		if b.IsConst() && b.Val == 0 {
			return a
		}
		if a == b {
			return Const(w, 0)
		}
		if b.IsConst() {
			return bin(OAdd, a, Const(w, -b.Val))
		}
	case OMul:
		if a.IsConst() {
			a, b = b, a
		}
		if b.IsConst() && b.Val == 1 {
			return a
		}
		if b.IsConst() && b.Val == 0 {
			return b
		}
	case OBAnd:
		if a.IsConst() {
			a, b = b, a
		}
		if b.IsConst() && b.Val == 0 {
			return b
		}
		if b.IsConst() && b.Val == mask(w) {
			return a
		}
		if a == b {
			return a
		}
	case OBOr, OBXor:
		if a.IsConst() {
			a, b = b, a
		}
		if b.IsConst() && b.Val == 0 {
			return a
		}
	case OUDiv:
		if b.IsConst() && b.Val == 1 {
			return a
		}
	case OShl, OLshr, OAshr:
		if b.IsConst() && b.Val == 0 {
			return a
		}
	}
	return mk(op, a.S, []*Term{a, b}, 0, 0, 0, "")
}

func Add(a, b *Term) *Term  { return bin(OAdd, a, b) }
func Sub(a, b *Term) *Term  { return bin(OSub, a, b) }
func Mul(a, b *Term) *Term  { return bin(OMul, a, b) }
func UDiv(a, b *Term) *Term { return bin(OUDiv, a, b) }
func URem(a, b *Term) *Term { return bin(OURem, a, b) }
func SDiv(a, b *Term) *Term { return bin(OSDiv, a, b) }
func SRem(a, b *Term) *Term { return bin(OSRem, a, b) }
func BAnd(a, b *Term) *Term { return bin(OBAnd, a, b) }
func BOr(a, b *Term) *Term  { return bin(OBOr, a, b) }
func BXor(a, b *Term) *Term { return bin(OBXor, a, b) }
func Shl(a, b *Term) *Term  { return bin(OShl, a, b) }
func Lshr(a, b *Term) *Term { return bin(OLshr, a, b) }
func Ashr(a, b *Term) *Term { return bin(OAshr, a, b) }

func BNot(a *Term) *Term {
	if a.IsConst() {
		return Const(a.S.W, ^a.Val)
	}
	return mk(OBNot, a.S, []*Term{a}, 0, 0, 0, "")
}
func Neg(a *Term) *Term {
	if a.IsConst() {
		return Const(a.S.W, -a.Val)
	}
	return mk(ONeg, a.S, []*Term{a}, 0, 0, 0, "")
}

func cmp(op Op, a, b *Term) *Term {
	if a.S != b.S {
		panic(fmt.Sprintf("cmp sort mismatch %v %v", a.S, b.S))
	}
	w := a.S.W
	if a.IsConst() && b.IsConst() {
		switch op {
		case OUlt:
			return BoolC(a.Val < b.Val)
		case OUle:
			return BoolC(a.Val <= b.Val)
		case OSlt:
			return BoolC(signed(a.Val, w) < signed(b.Val, w))
		case OSle:
			return BoolC(signed(a.Val, w) <= signed(b.Val, w))
		}
	}
	if a == b {
		return BoolC(op == OUle || op == OSle)
	}
	if op == OUlt && b.IsConst() && b.Val == 0 {
		return False
	}
	if op == OUle && a.IsConst() && a.Val == 0 {
		return True
	}
	return mk(op, BoolSort, []*Term{a, b}, 0, 0, 0, "")
}
func Ult(a, b *Term) *Term { return cmp(OUlt, a, b) }
func Ule(a, b *Term) *Term { return cmp(OUle, a, b) }
func Slt(a, b *Term) *Term { return cmp(OSlt, a, b) }
func Sle(a, b *Term) *Term { return cmp(OSle, a, b) }

func Extract(hi, lo int, a *Term) *Term {
	if lo == 0 && hi == a.S.W-1 {
		return a
	}
	w := hi - lo + 1
	if a.IsConst() {
		return Const(w, a.Val>>uint(lo))
	}
	if (a.Op == OZext || a.Op == OSext) && hi < a.Args[0].S.W {
		return Extract(hi, lo, a.Args[0])
	}
	if a.Op == OZext && lo >= a.Args[0].S.W {
		return Const(w, 0)
	}
	return mk(OExtract, BV(w), []*Term{a}, 0, hi, lo, "")
}
func Zext(a *Term, to int) *Term {
	if to == a.S.W {
		return a
	}
	if to < a.S.W {
		return Extract(to-1, 0, a)
	}
	if a.IsConst() {
		return Const(to, a.Val)
	}
	if a.Op == OZext {
		return Zext(a.Args[0], to)
	}
	return mk(OZext, BV(to), []*Term{a}, 0, to-a.S.W, 0, "")
}
func Sext(a *Term, to int) *Term {
	if to == a.S.W {
		return a
	}
	if to < a.S.W {
		return Extract(to-1, 0, a)
	}
	if a.IsConst() {
		return Const(to, uint64(signed(a.Val, a.S.W)))
	}
	return mk(OSext, BV(to), []*Term{a}, 0, to-a.S.W, 0, "")
}

func UF(name string, s Sort, args ...*Term) *Term { return mk(OUF, s, args, 0, 0, 0, name) }

// ---- arrays ----
func AVar(name string, elw int) *Term { return mk(OAVar, Sort{SArr, elw}, nil, 0, 0, 0, name) }
func AConst(elw int, v uint64) *Term  { return mk(OAConst, Sort{SArr, elw}, nil, v&mask(elw), 0, 0, "") }
func AStore(a, i, v *Term) *Term {
	if a.Op == OAStore && a.Args[1] == i {
		a = a.Args[0]
	}
	return mk(OAStore, a.S, []*Term{a, i, v}, 0, 0, 0, "")
}
func ACopy(dst, do, src, so, n *Term) *Term {
	if n.IsConst() && n.Val == 0 {
		return dst
	}
	return mk(OACopy, dst.S, []*Term{dst, do, src, so, n}, 0, 0, 0, "")
}

func AXor(dst, do, src, so, ks, ko, n *Term) *Term {
	if n.IsConst() && n.Val == 0 {
		return dst
	}
	return mk(OAXor, dst.S, []*Term{dst, do, src, so, ks, ko, n}, 0, 0, 0, "")
}

// Select pushes reads through stores and copies.
func Select(a, i *Term) *Term {
	switch a.Op {
	case OAVar:
		return mk(OSelect, BV(a.S.W), []*Term{a, i}, 0, 0, 0, "")
	case OAConst:
		return Const(a.S.W, a.Val)
	case OAStore:
		c := Eq(a.Args[1], i)
		if c.IsTrue() {
			return a.Args[2]
		}
		rest := Select(a.Args[0], i)
		return Ite(c, a.Args[2], rest)
	case OACopy:
		dst, do, src, so, n := a.Args[0], a.Args[1], a.Args[2], a.Args[3], a.Args[4]
		in := And(Ule(do, i), Ult(i, Add(do, n)))
		if in.IsFalse() {
			return Select(dst, i)
		}
		sv := Select(src, Add(Sub(i, do), so))
		if in.IsTrue() {
			return sv
		}
		return Ite(in, sv, Select(dst, i))
	case OAXor:
		dst, do, src, so, ks, ko, n := a.Args[0], a.Args[1], a.Args[2], a.Args[3], a.Args[4], a.Args[5], a.Args[6]
		in := And(Ule(do, i), Ult(i, Add(do, n)))
		if in.IsFalse() {
			return Select(dst, i)
		}
		d := Sub(i, do)
		xv := BXor(Select(src, Add(d, so)), Select(ks, Add(d, ko)))
		if in.IsTrue() {
			return xv
		}
		return Ite(in, xv, Select(dst, i))
	case OIte:
		return Ite(a.Args[0], Select(a.Args[1], i), Select(a.Args[2], i))
	}
	panic("select on non-array")
}

// ---- printing ----
var opNames = map[Op]string{ONot: "not", OAnd: "and", OOr: "or", OIte: "ite", OEq: "=", OAdd: "bvadd", OSub: "bvsub", OMul: "bvmul",
	OUDiv: "bvudiv", OURem: "bvurem", OSDiv: "bvsdiv", OSRem: "bvsrem", OBAnd: "bvand", OBOr: "bvor", OBXor: "bvxor",
	OShl: "bvshl", OLshr: "bvlshr", OAshr: "bvashr", OBNot: "bvnot", ONeg: "bvneg", OUlt: "bvult", OUle: "bvule", OSlt: "bvslt", OSle: "bvsle",
	OConcat: "concat", OSelect: "select"}

type Printer struct {
	decls   []string
	defs    []string
	done    map[int]string
	declared map[string]bool
}

func NewPrinter(declared map[string]bool) *Printer {
	return &Printer{done: map[int]string{}, declared: declared}
}

func (p *Printer) ref(t *Term) string {
	if s, ok := p.done[t.id]; ok {
		return s
	}
	var s string
	switch t.Op {
	case OConst:
		if t.S.K == SBool {
			if t.Val != 0 {
				s = "true"
			} else {
				s = "false"
			}
		} else if t.S.W%4 == 0 {
			s = fmt.Sprintf("#x%0*x", t.S.W/4, t.Val)
		} else {
			s = fmt.Sprintf("#b%0*b", t.S.W, t.Val)
		}
		p.done[t.id] = s
		return s
	case OVar, OAVar:
		s = "|" + t.Name + "|"
		if !p.declared[t.Name] {
			p.declared[t.Name] = true
			p.decls = append(p.decls, fmt.Sprintf("(declare-const %s %s)", s, t.S))
		}
		p.done[t.id] = s
		return s
	case OUF:
		fn := "|" + t.Name + "|"
		if !p.declared[t.Name] {
			p.declared[t.Name] = true
			var as []string
			for _, a := range t.Args {
				as = append(as, a.S.String())
			}
			p.decls = append(p.decls, fmt.Sprintf("(declare-fun %s (%s) %s)", fn, strings.Join(as, " "), t.S))
		}
		var as []string
		for _, a := range t.Args {
			as = append(as, p.ref(a))
		}
		if len(as) == 0 {
			s = fn
		} else {
			s = "(" + fn + " " + strings.Join(as, " ") + ")"
		}
	case OExtract:
		s = fmt.Sprintf("((_ extract %d %d) %s)", t.A, t.B, p.ref(t.Args[0]))
	case OZext:
		s = fmt.Sprintf("((_ zero_extend %d) %s)", t.A, p.ref(t.Args[0]))
	case OSext:
		s = fmt.Sprintf("((_ sign_extend %d) %s)", t.A, p.ref(t.Args[0]))
	case OAConst, OAStore, OACopy, OAXor:
		panic("array-level term reached printer")
	default:
		var as []string
		for _, a := range t.Args {
			as = append(as, p.ref(a))
		}
		s = "(" + opNames[t.Op] + " " + strings.Join(as, " ") + ")"
	}
	name := fmt.Sprintf("t!%d", t.id)
	p.defs = append(p.defs, fmt.Sprintf("(define-fun %s () %s %s)", name, t.S, s))
	p.done[t.id] = name
	return name
}
