package main

import (
	"context"
	"fmt"
	"os"
	"os/exec"
	"strings"
	"sync"
	"time"
)

// crossCheck re-decides the recorded final verification conditions with z3 4.8.12 and
// cvc5; a different definite answer is a disagreement, a cap hit is recorded as timeout.
func crossCheck(vcs []vcRec) CrossResult {
	var cr CrossResult
	if len(vcs) == 0 {
		return cr
	}
	cr.VCs = len(vcs)
	var sb strings.Builder
	for _, v := range vcs {
		sb.WriteString("(reset)\n")
		sb.WriteString(v.Script)
	}
	f, err := os.CreateTemp("", "gosym-vc-*.smt2")
	if err != nil {
		return cr
	}
	defer os.Remove(f.Name())
	f.WriteString(sb.String())
	f.Close()
	type sv struct {
		name string
		args []string
	}
	solvers := []sv{{"z3", []string{"-t:5000", f.Name()}}, {"cvc5", []string{"--incremental", "--tlimit-per=5000", f.Name()}}}
	agreeAll := make([]bool, len(vcs))
	for i := range agreeAll {
		agreeAll[i] = true
	}
	timeoutAny := make([]bool, len(vcs))
	outs := make([]string, len(solvers))
	var wg sync.WaitGroup
	for k, s := range solvers {
		wg.Add(1)
		go func(k int, s sv) {
			defer wg.Done()
			ctx, cancel := context.WithTimeout(context.Background(), 60*time.Second)
			out, _ := exec.CommandContext(ctx, s.name, s.args...).CombinedOutput()
			cancel()
			outs[k] = string(out)
		}(k, s)
	}
	wg.Wait()
	for k, s := range solvers {
		var answers []string
		for _, l := range strings.Split(outs[k], "\n") {
			l = strings.TrimSpace(l)
			if l == "sat" || l == "unsat" || l == "unknown" || l == "timeout" {
				answers = append(answers, l)
			}
		}
		for i, v := range vcs {
			if i >= len(answers) {
				timeoutAny[i] = true
				continue
			}
			a := answers[i]
			if a == "unknown" || a == "timeout" {
				timeoutAny[i] = true
			} else if a != v.Expect {
				agreeAll[i] = false
				if len(cr.Detail) < 5 {
					cr.Detail = append(cr.Detail, fmt.Sprintf("%s answers %s, primary %s: %s", s.name, a, v.Expect, v.What))
				}
			}
		}
	}
	for i := range vcs {
		switch {
		case !agreeAll[i]:
			cr.Disagree++
		case timeoutAny[i]:
			cr.Timeout++
		default:
			cr.Agree++
		}
	}
	return cr
}

// intBlast decides a standalone script with cvc5's integer encoding of bit-vectors.
func intBlast(script string, timeoutS int) string {
	f, err := os.CreateTemp("", "gosym-ib-*.smt2")
	if err != nil {
		return "unknown"
	}
	defer os.Remove(f.Name())
	f.WriteString("(set-logic ALL)\n" + script)
	f.Close()
	ctx, cancel := context.WithTimeout(context.Background(), time.Duration(timeoutS)*time.Second)
	defer cancel()
	out, _ := exec.CommandContext(ctx, "cvc5", "--solve-bv-as-int=sum", fmt.Sprintf("--tlimit=%d", timeoutS*1000), f.Name()).CombinedOutput()
	for _, l := range strings.Split(string(out), "\n") {
		l = strings.TrimSpace(l)
		if l == "sat" || l == "unsat" {
			return l
		}
	}
	return "unknown"
}
