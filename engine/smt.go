package main

import (
	"bufio"
	"fmt"
	"io"
	"os"
	"os/exec"
	"regexp"
	"strconv"
	"strings"
	"time"
)

// Solver is one live SMT solver process. The assertion stack of the process is
// kept in step with the path condition of the state being executed: Check pops
// to the common prefix and pushes the rest, so that along a DFS branch only the
// new conjuncts are sent. Declarations and shared sub-term definitions are
// global (:global-declarations) and therefore survive pops.
type Solver struct {
	bin       string
	cmd       *exec.Cmd
	in        io.WriteCloser
	out       *bufio.Reader
	p         *Printer
	stack     []*Term
	timeoutMs int
	log       io.Writer

	Queries, Sat, Unsat, Unknown, Errors, Restarts int
	Time                                           time.Duration
}

func solverBin() string {
	if b := os.Getenv("GOSYM_SOLVER"); b != "" {
		return b
	}
	return "z3-new"
}

func NewSolver(timeoutMs int, log io.Writer) *Solver {
	s := &Solver{bin: solverBin(), timeoutMs: timeoutMs, log: log}
	s.start()
	return s
}

func (s *Solver) start() {
	cmd := exec.Command(s.bin, "-in")
	in, _ := cmd.StdinPipe()
	out, _ := cmd.StdoutPipe()
	cmd.Stderr = cmd.Stdout
	if err := cmd.Start(); err != nil {
		panic(err)
	}
	s.cmd, s.in, s.out = cmd, in, bufio.NewReaderSize(out, 1<<16)
	s.p = NewPrinter(map[string]bool{})
	s.stack = nil
	s.send("(set-option :global-declarations true)\n")
	s.send(fmt.Sprintf("(set-option :timeout %d)\n", s.timeoutMs))
}

func (s *Solver) Close() {
	s.in.Close()
	done := make(chan struct{})
	go func() { s.cmd.Wait(); close(done) }()
	select {
	case <-done:
	case <-time.After(2 * time.Second):
		s.cmd.Process.Kill()
	}
}

func (s *Solver) restart() {
	s.cmd.Process.Kill()
	s.cmd.Wait()
	s.Restarts++
	s.start()
}

func (s *Solver) send(x string) {
	if s.log != nil {
		io.WriteString(s.log, x)
	}
	io.WriteString(s.in, x)
}

// emit sends pending declarations/definitions and returns the reference to t.
func (s *Solver) emit(t *Term) string {
	r := s.p.ref(t)
	if len(s.p.decls) > 0 || len(s.p.defs) > 0 {
		var sb strings.Builder
		for _, d := range s.p.decls {
			sb.WriteString(d)
			sb.WriteByte('\n')
		}
		for _, d := range s.p.defs {
			sb.WriteString(d)
			sb.WriteByte('\n')
		}
		s.p.decls, s.p.defs = nil, nil
		s.send(sb.String())
	}
	return r
}

func (s *Solver) sync(pc []*Term) {
	k := 0
	for k < len(pc) && k < len(s.stack) && pc[k] == s.stack[k] {
		k++
	}
	if n := len(s.stack) - k; n > 0 {
		s.send(fmt.Sprintf("(pop %d)\n", n))
		s.stack = s.stack[:k]
	}
	for ; k < len(pc); k++ {
		r := s.emit(pc[k])
		s.send("(push 1)\n(assert " + r + ")\n")
		s.stack = append(s.stack, pc[k])
	}
}

type lineRes struct {
	l   string
	err error
}

func (s *Solver) readLine(deadline time.Duration) (string, bool) {
	ch := make(chan lineRes, 1)
	go func() {
		l, err := s.out.ReadString('\n')
		ch <- lineRes{l, err}
	}()
	select {
	case r := <-ch:
		if r.err != nil {
			return "", false
		}
		return strings.TrimSpace(r.l), true
	case <-time.After(deadline):
		return "", false
	}
}

var valRe = regexp.MustCompile(`^(#x[0-9a-fA-F]+|#b[01]+|true|false)$`)

func parseVal(v string) (uint64, bool) {
	v = strings.TrimSpace(v)
	switch {
	case v == "true":
		return 1, true
	case v == "false":
		return 0, true
	case strings.HasPrefix(v, "#x"):
		u, err := strconv.ParseUint(v[2:], 16, 64)
		return u, err == nil
	case strings.HasPrefix(v, "#b"):
		u, err := strconv.ParseUint(v[2:], 2, 64)
		return u, err == nil
	}
	return 0, false
}

// Check decides pc ∧ extra (extra may be nil). If want is non-empty and the
// answer is sat, the values of those terms under the model are returned (in order;
// ok[i] false where the solver's answer could not be parsed).
func (s *Solver) Check(pc []*Term, extra *Term, want []*Term) (string, []uint64) {
	t0 := time.Now()
	defer func() {
		d := time.Since(t0)
		s.Time += d
		if slowMs > 0 && d > time.Duration(slowMs)*time.Millisecond {
			fmt.Fprintf(os.Stderr, "SLOWQ %.2fs pc=%d extra=%v want=%d\n", d.Seconds(), len(pc), extra != nil, len(want))
		}
	}()
	s.Queries++
	// watchdog: the solver may also hang while it is being *fed* (a write into a full pipe has no
	// deadline; z3 has been seen busy for half an hour inside one command with its timeout
	// ignored). Killing it makes the pending write / read fail; the query is then inconclusive.
	cmd := s.cmd
	wd := time.AfterFunc(time.Duration(s.timeoutMs)*time.Millisecond*2+35*time.Second, func() { cmd.Process.Kill() })
	defer wd.Stop()
	s.sync(pc)
	if extra != nil {
		r := s.emit(extra)
		s.send("(push 1)\n(assert " + r + ")\n")
	}
	s.send("(check-sat)\n")
	res := "unknown"
	hard := time.Duration(s.timeoutMs)*time.Millisecond*2 + 5*time.Second
	for {
		l, ok := s.readLine(hard)
		if !ok {
			// solver died or hung: restart; the query is inconclusive
			s.Errors++
			s.restart()
			s.Unknown++
			return "unknown", nil
		}
		if l == "" {
			continue
		}
		if strings.HasPrefix(l, "(error") {
			s.Errors++
			fmt.Fprintln(os.Stderr, "solver error:", l)
			res = "error"
			continue
		}
		if l == "sat" || l == "unsat" || l == "unknown" || l == "timeout" {
			if res != "error" {
				res = l
			}
			break
		}
	}
	if res == "error" || res == "timeout" {
		res = "unknown"
	}
	var vals []uint64
	if res == "sat" && len(want) > 0 {
		vals = make([]uint64, len(want))
		// ask in chunks to keep lines manageable
		for i := 0; i < len(want); i += 64 {
			j := i + 64
			if j > len(want) {
				j = len(want)
			}
			var refs []string
			for _, w := range want[i:j] {
				refs = append(refs, s.emit(w))
			}
			s.send("(get-value (" + strings.Join(refs, " ") + "))\n")
			var buf strings.Builder
			depth := 0
			for {
				l, ok := s.readLine(hard)
				if !ok {
					s.restart()
					return "unknown", nil
				}
				buf.WriteString(l + " ")
				depth += strings.Count(l, "(") - strings.Count(l, ")")
				if depth <= 0 && strings.TrimSpace(buf.String()) != "" {
					break
				}
			}
			got := parseGetValue(buf.String())
			for k := range got {
				if i+k < len(vals) {
					vals[i+k] = got[k]
				}
			}
		}
	}
	if extra != nil {
		s.send("(pop 1)\n")
	}
	switch res {
	case "sat":
		s.Sat++
	case "unsat":
		s.Unsat++
	default:
		s.Unknown++
	}
	return res, vals
}

// parseGetValue extracts the value part of each (term value) pair, in order.
func parseGetValue(sx string) []uint64 {
	var out []uint64
	sx = strings.TrimSpace(sx)
	// strip outer parens
	if len(sx) < 2 {
		return nil
	}
	sx = sx[1 : len(sx)-1]
	depth := 0
	start := -1
	for i := 0; i < len(sx); i++ {
		switch sx[i] {
		case '(':
			if depth == 0 {
				start = i
			}
			depth++
		case ')':
			depth--
			if depth == 0 && start >= 0 {
				pair := sx[start+1 : i]
				// value is the last token
				pair = strings.TrimSpace(pair)
				k := strings.LastIndexAny(pair, " \t")
				v := pair
				if k >= 0 {
					v = pair[k+1:]
				}
				u, _ := parseVal(v)
				out = append(out, u)
				start = -1
			}
		}
	}
	return out
}

// Standalone renders pc ∧ extra as a self-contained script (for cross-checking
// by other solvers).
func Standalone(pc []*Term, extra *Term) string {
	p := NewPrinter(map[string]bool{})
	var asserts []string
	for _, c := range pc {
		asserts = append(asserts, "(assert "+p.ref(c)+")")
	}
	if extra != nil {
		asserts = append(asserts, "(assert "+p.ref(extra)+")")
	}
	var sb strings.Builder
	for _, d := range p.decls {
		sb.WriteString(d + "\n")
	}
	for _, d := range p.defs {
		sb.WriteString(d + "\n")
	}
	for _, a := range asserts {
		sb.WriteString(a + "\n")
	}
	sb.WriteString("(check-sat)\n")
	return sb.String()
}
