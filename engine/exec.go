package main

import (
	"fmt"
	"go/constant"
	"go/token"
	"go/types"
	"os"
	"sort"
	"strings"
	"time"

	"golang.org/x/tools/go/ssa"
)

type deferred struct {
	fn   Value
	args []Value
	in   *ssa.Defer
}

type Frame struct {
	fn      *ssa.Function
	env     map[ssa.Value]Value
	block   *ssa.BasicBlock
	prev    *ssa.BasicBlock
	ip      int
	defers  []deferred
	call    ssa.Value // call instruction in caller
	visits  map[int]int
	rundefers bool
	pendingRet Value
	hasRet  bool
	mergeRoot bool // root frame of a pure-callee merge run: its return is collected, not continued
}

type Thr struct {
	frames   []*Frame
	done     bool
	sleeping bool
	hashing  bool // inside a long stubbed operation (two visible events: entry and completion)
}

type MuState struct {
	writer  int // thread id+1, 0 = free
	readers int
}

type State struct {
	heap    map[int]*Obj
	threads []*Thr
	cur     int
	granted bool
	preempt int
	mus     map[string]MuState
	wgs     map[string]int
	ctxDone bool
	unsafeClass int   // 0: HTML metacharacters < > " '   1: CR / LF
	tickMask, tickBudget, tickSeq int // vTickers: which of the tickers created next are live environment channels
	outUnsafe   *Term // some piece written to the response may contain a character of the class
	ksByKey map[string]*Term // RC4 keystream array per key identity
	bigBytes map[string]*Term // 96-byte form per big-integer identity
	sched   []int
	frames  []*Frame
	pc      []*Term
	reached []string
	consumed *Term
	notes   []string
	imprecise bool
	allocs  []*Term
	effects []string
	sha1s   []shaApp
	bencNext []bencReg // values registered by vBencode, consumed by the decoder stubs by type
	lastEnc  Value
	primary int  // object id of the first stream created on this path (vStreamPos observes it)
	stubbed bool // the path went through an adversarial stub (cut, bencode adversary, nondet error): no native counterpart
}

type Outcome struct {
	Kind      string // "return", "panic", "assert", "unwind", "blocked", "undecided"
	Msg       string
	Pos       token.Position
	Func      string
	Model     *Model
	PC        int
	Reached   []string
	Sched     []int
	Imprecise bool
	Stubbed   bool
	VC        string // standalone script of the deciding query (for cross-checking)
	Stack     []string
}

// Model is a satisfying assignment restricted to what a replay needs: named
// scalars, and for every base array the cells that the path condition reads.
type Model struct {
	Scalars map[string]uint64            `json:"scalars"`
	Arrays  map[string]map[uint64]uint64 `json:"arrays,omitempty"`
	Stubbed bool                         `json:"stubbed,omitempty"`
}

type AssertStat struct {
	Msg     string
	Pos     string
	Checked int
	Failed  int
	Unknown int
}

type Exec struct {
	cfg      *HarnessCfg
	asserts  map[string]*AssertStat
	witness  map[string]*Model // reach label -> a model of one path reaching it
	vcs      []vcRec
	satVCs   map[string]int
	mergeStack [][]mergeRet
	deadline time.Time
	timedOut bool
	prog     *ssa.Program
	solver   *Solver
	work     []*State
	outcomes []Outcome
	nextObj  int
	globals  map[*ssa.Global]int
	fresh    int
	vars     []*Term
	paths    int
	blocks   int
	funcs    map[string]bool
	intr     map[string]bool
	loopBound int
	reachedAll map[string]bool
	initDone map[*ssa.Package]bool
	inInit bool
}

func (ex *Exec) freshVar(prefix string, s Sort) *Term {
	ex.fresh++
	v := Var(fmt.Sprintf("%s!%d", prefix, ex.fresh), s)
	ex.vars = append(ex.vars, v)
	return v
}
func (ex *Exec) namedVar(name string, s Sort) *Term {
	v := Var(name, s)
	for _, x := range ex.vars {
		if x == v {
			return v
		}
	}
	ex.vars = append(ex.vars, v)
	return v
}

func (st *State) clone() *State {
	n := &State{heap: make(map[int]*Obj, len(st.heap)), consumed: st.consumed, imprecise: st.imprecise, stubbed: st.stubbed, primary: st.primary, bencNext: append([]bencReg(nil), st.bencNext...), lastEnc: st.lastEnc}
	for k, v := range st.heap {
		n.heap[k] = v
	}
	n.pc = append([]*Term(nil), st.pc...)
	n.reached = append([]string(nil), st.reached...)
	n.notes = append([]string(nil), st.notes...)
	n.allocs = append([]*Term(nil), st.allocs...)
	n.effects = append([]string(nil), st.effects...)
	n.sha1s = append([]shaApp(nil), st.sha1s...)
	n.cur, n.granted, n.preempt = st.cur, st.granted, st.preempt
	n.ctxDone = st.ctxDone
	n.unsafeClass, n.outUnsafe = st.unsafeClass, st.outUnsafe
	n.tickMask, n.tickBudget, n.tickSeq = st.tickMask, st.tickBudget, st.tickSeq
	n.sched = append([]int(nil), st.sched...)
	n.mus = map[string]MuState{}
	for k, v := range st.mus {
		n.mus[k] = v
	}
	n.wgs = map[string]int{}
	for k, v := range st.wgs {
		n.wgs[k] = v
	}
	n.ksByKey = map[string]*Term{}
	for k, v := range st.ksByKey {
		n.ksByKey[k] = v
	}
	n.bigBytes = map[string]*Term{}
	for k, v := range st.bigBytes {
		n.bigBytes[k] = v
	}
	for i, t := range st.threads {
		nt := &Thr{done: t.done, sleeping: t.sleeping, hashing: t.hashing}
		if i != st.cur {
			nt.frames = cloneFrames(t.frames)
		}
		n.threads = append(n.threads, nt)
	}
	for _, f := range st.frames {
		nf := *f
		nf.env = make(map[ssa.Value]Value, len(f.env))
		for k, v := range f.env {
			nf.env[k] = v
		}
		nf.visits = make(map[int]int, len(f.visits))
		for k, v := range f.visits {
			nf.visits[k] = v
		}
		nf.defers = append([]deferred(nil), f.defers...)
		n.frames = append(n.frames, &nf)
	}
	return n
}

var forkStats = func() map[string]int {
	if os.Getenv("GOSYM_FORKS") != "" {
		return map[string]int{}
	}
	return nil
}()

var slowMs = func() int { n := 0; fmt.Sscan(os.Getenv("GOSYM_SLOW"), &n); return n }()

func max0(i int) int {
	if i < 0 {
		return 0
	}
	return i
}

func (st *State) top() *Frame { return st.frames[len(st.frames)-1] }

func cloneFrames(fs []*Frame) []*Frame {
	var out []*Frame
	for _, f := range fs {
		nf := *f
		nf.env = make(map[ssa.Value]Value, len(f.env))
		for k, v := range f.env {
			nf.env[k] = v
		}
		nf.visits = make(map[int]int, len(f.visits))
		for k, v := range f.visits {
			nf.visits[k] = v
		}
		nf.defers = append([]deferred(nil), f.defers...)
		out = append(out, &nf)
	}
	return out
}

func (ex *Exec) newObj(st *State, v Value) int {
	ex.nextObj++
	st.heap[ex.nextObj] = &Obj{Val: v}
	return ex.nextObj
}

// ---------- feasibility ----------
func (ex *Exec) feasible(st *State, c *Term) bool {
	if c.IsTrue() {
		return true
	}
	if c.IsFalse() {
		return false
	}
	tq := time.Now()
	r, _ := ex.solver.Check(st.pc, c, nil)
	if d := time.Since(tq); slowMs > 0 && d > time.Duration(slowMs)*time.Millisecond && len(st.frames) > 0 {
		fr := st.top()
		fmt.Fprintf(os.Stderr, "SLOW %.2fs %s pc=%d in %s at %s\n", d.Seconds(), r, len(st.pc), fr.fn.String(), ex.prog.Fset.Position(fr.block.Instrs[max0(fr.ip-1)].Pos()))
	}
	if os.Getenv("TRACE") != "" && ex.solver.Queries%500 == 0 {
		var stack []string
		for _, f := range st.frames {
			stack = append(stack, fmt.Sprintf("%s@%d", f.fn.Name(), f.block.Index))
		}
		fmt.Printf("q=%d paths=%d work=%d pc=%d stack=%v\n", ex.solver.Queries, ex.paths, len(ex.work), len(st.pc), stack)
	}
	return r != "unsat"
}

// fork returns states for cond true / false (nil if infeasible). st is reused for one of them.
func (ex *Exec) fork(st *State, c *Term) (*State, *State) {
	if c.IsTrue() {
		return st, nil
	}
	if c.IsFalse() {
		return nil, st
	}
	ff := ex.feasible(st, Not(c))
	ft := true
	if ff {
		ft = ex.feasible(st, c)
	}
	switch {
	case ft && ff:
		if forkStats != nil && len(st.frames) > 0 {
			fr := st.top()
			forkStats[fr.fn.String()+" @ "+ex.prog.Fset.Position(fr.block.Instrs[max0(fr.ip-1)].Pos()).String()]++
		}
		o := st.clone()
		st.pc = append(st.pc, c)
		o.pc = append(o.pc, Not(c))
		return st, o
	case ft:
		st.pc = append(st.pc, c)
		return st, nil
	case ff:
		st.pc = append(st.pc, Not(c))
		return nil, st
	}
	if os.Getenv("TRACE") != "" {
		var stack []string
		for _, f := range st.frames {
			stack = append(stack, fmt.Sprintf("%s@%d", f.fn.Name(), f.block.Index))
		}
		fmt.Printf("DEAD PATH (pc infeasible) at %v\n", stack)
	}
	return nil, nil
}

type vcRec struct {
	Script string
	Expect string
	What   string
}

func collectSelects(ts []*Term) []*Term {
	seen := map[int]bool{}
	var out []*Term
	var walk func(t *Term)
	walk = func(t *Term) {
		if seen[t.id] {
			return
		}
		seen[t.id] = true
		if t.Op == OSelect && t.Args[0].Op == OAVar {
			out = append(out, t)
		}
		for _, a := range t.Args {
			walk(a)
		}
	}
	for _, t := range ts {
		walk(t)
	}
	return out
}

// model asks the solver for a model of st.pc restricted to named variables and the
// array cells read by the path condition.
func (ex *Exec) model(st *State) (string, *Model) {
	sels := collectSelects(st.pc)
	if len(sels) > 6000 {
		sels = sels[:6000]
	}
	var vars []*Term
	seen := map[int]bool{}
	var walk func(t *Term)
	walk = func(t *Term) {
		if seen[t.id] {
			return
		}
		seen[t.id] = true
		if t.Op == OVar {
			vars = append(vars, t)
		}
		for _, a := range t.Args {
			walk(a)
		}
	}
	for _, t := range st.pc {
		walk(t)
	}
	want := append([]*Term(nil), vars...)
	for _, s := range sels {
		want = append(want, s.Args[1], s)
	}
	r, vals := ex.solver.Check(st.pc, nil, want)
	if r != "sat" {
		return r, nil
	}
	m := &Model{Scalars: map[string]uint64{}, Arrays: map[string]map[uint64]uint64{}}
	if vals != nil {
		for i, v := range vars {
			m.Scalars[v.Name] = vals[i]
		}
		k := len(vars)
		for _, s := range sels {
			name := s.Args[0].Name
			if m.Arrays[name] == nil {
				m.Arrays[name] = map[uint64]uint64{}
			}
			m.Arrays[name][vals[k]] = vals[k+1]
			k += 2
		}
	}
	for i, n := range st.notes {
		if strings.HasPrefix(n, "choose:") {
			kv := strings.SplitN(n[7:], "=", 2)
			var v int64
			fmt.Sscan(kv[1], &v)
			m.Scalars[fmt.Sprintf("choose:%s!%d", kv[0], i)] = uint64(v)
		}
	}
	return r, m
}

func (ex *Exec) stackOf(st *State) []string {
	var stack []string
	for _, f := range st.frames {
		stack = append(stack, f.fn.String())
	}
	return stack
}

func (ex *Exec) finish(st *State, kind, msg string, pos token.Pos) {
	o := Outcome{Kind: kind, Msg: msg, PC: len(st.pc), Reached: st.reached, Sched: st.sched, Imprecise: st.imprecise, Stubbed: st.stubbed, Stack: ex.stackOf(st)}
	if pos.IsValid() {
		o.Pos = ex.prog.Fset.Position(pos)
	}
	if len(st.frames) > 0 {
		o.Func = st.top().fn.String()
	}
	if kind != "return" {
		r, m := ex.model(st)
		if r == "unsat" {
			return
		}
		if r != "sat" {
			o.Kind = "undecided"
			o.Msg = kind + ": " + msg
		} else {
			o.Model = m
			if ex.satVCs[kind+msg] < 1 && len(ex.vcs) < 24 {
				ex.satVCs[kind+msg]++
				ex.vcs = append(ex.vcs, vcRec{Standalone(st.pc, nil), "sat", kind + ": " + msg})
			}
		}
	} else {
		// keep one witness model per reach label not yet witnessed
		need := false
		for _, l := range st.reached {
			if ex.witness[l] == nil || (ex.witness[l].Stubbed && !st.stubbed) {
				need = true
			}
		}
		if need {
			if r, m := ex.model(st); r == "sat" {
				m.Stubbed = st.stubbed
				for _, l := range st.reached {
					if ex.witness[l] == nil || (ex.witness[l].Stubbed && !st.stubbed) {
						ex.witness[l] = m
					}
				}
			}
		}
	}
	for _, l := range st.reached {
		ex.reachedAll[l] = true
	}
	ex.outcomes = append(ex.outcomes, o)
}

// require: cond must hold; the failing side ends as a panic outcome. returns false if st is dead.
func (ex *Exec) require(st *State, c *Term, kind string, pos token.Pos) bool {
	t, f := ex.fork(st, c)
	if f != nil {
		ex.finish(f, "panic", kind, pos)
	}
	return t != nil
}

// ---------- value access ----------
func (ex *Exec) constVal(c *ssa.Const) Value {
	t := c.Type()
	if c.Value == nil {
		return zeroValue(t)
	}
	if w, ok := isScalarType(t); ok {
		if w == 0 {
			return BoolC(constant.BoolVal(c.Value))
		}
		if i, ok := constant.Int64Val(constant.ToInt(c.Value)); ok {
			return Const(w, uint64(i))
		}
		u, _ := constant.Uint64Val(constant.ToInt(c.Value))
		return Const(w, u)
	}
	if b, ok := t.Underlying().(*types.Basic); ok {
		if b.Info()&types.IsString != 0 {
			return StringV{S: constant.StringVal(c.Value)}
		}
		if b.Info()&types.IsFloat != 0 {
			return OpaqueV{"float", 0}
		}
	}
	panic(fmt.Sprintf("const %v of type %v", c, t))
}

func (ex *Exec) get(st *State, v ssa.Value) Value {
	switch x := v.(type) {
	case *ssa.Const:
		return ex.constVal(x)
	case *ssa.Global:
		return PtrV{Obj: ex.globalObj(st, x)}
	case *ssa.Function:
		return FuncV{Fn: x}
	case *ssa.Builtin:
		return FuncV{Builtin: x}
	}
	fr := st.top()
	if val, ok := fr.env[v]; ok {
		return val
	}
	panic(fmt.Sprintf("unbound value %s (%T) in %s", v.Name(), v, fr.fn))
}

func (ex *Exec) globalObj(st *State, g *ssa.Global) int {
	if id, ok := ex.globals[g]; ok {
		if _, ok := st.heap[id]; ok {
			return id
		}
	}
	et := g.Type().(*types.Pointer).Elem()
	val := zeroValue(et)
	if gs := g.String(); gs == "net/netip.z4" || gs == "net/netip.z6noz" {
		// unique.Handle[addrDetail]: distinct non-nil handles (z0 stays the zero handle)
		ex.nextObj++
		st.heap[ex.nextObj] = &Obj{Val: OpaqueV{"handle:" + gs, 0}}
		val = StructV{[]Value{PtrV{Obj: ex.nextObj}}}
	}
	if _, ok := et.Underlying().(*types.Interface); ok {
		val = IfaceV{T: et, V: OpaqueV{"global:" + g.String(), 0}}
		if gs := g.String(); gs == "io.EOF" || gs == "io.ErrUnexpectedEOF" {
			val = errVal(gs) // the same value the stream intrinsics return
		}
	}
	id, ok := ex.globals[g]
	if !ok {
		ex.nextObj++
		id = ex.nextObj
		ex.globals[g] = id
	}
	st.heap[id] = &Obj{Val: val}
	return id
}

func (ex *Exec) load(st *State, p PtrV, pos token.Pos) (Value, bool) {
	if p.Obj == 0 {
		ex.finish(st, "panic", "nil dereference", pos)
		return nil, false
	}
	o := st.heap[p.Obj]
	if o == nil {
		panic(fmt.Sprintf("dangling object %d", p.Obj))
	}
	if o.Freed {
		ex.finish(st, "panic", "use after free (load)", pos)
		return nil, false
	}
	v := o.Val
	var winOff *Term
	for _, pe := range p.Path {
		if pe.Field >= 0 {
			v = v.(StructV).F[pe.Field]
			continue
		}
		if pe.Field == -2 {
			winOff = pe.Idx
			a := v.(ArrV)
			v = ArrV{ACopy(AConst(a.ElW, 0), Const(64, 0), a.A, pe.Idx, Const(64, uint64(pe.N))), pe.N, a.ElW}
			continue
		}
		_ = winOff
		switch a := v.(type) {
		case ArrV:
			v = Select(a.A, pe.Idx)
		case CellsV:
			if !pe.Idx.IsConst() {
				panic("symbolic index into cells")
			}
			v = a.C[pe.Idx.Val]
		case LazyV:
			v = a.Known[pe.Idx.Val].Val
		default:
			panic(fmt.Sprintf("index into %T", v))
		}
	}
	return v, true
}

func updatePath(v Value, path []PathEl, nv Value) Value {
	if len(path) == 0 {
		return nv
	}
	pe := path[0]
	if pe.Field >= 0 {
		s := v.(StructV)
		f := append([]Value(nil), s.F...)
		f[pe.Field] = updatePath(f[pe.Field], path[1:], nv)
		return StructV{f}
	}
	if pe.Field == -2 {
		a := v.(ArrV)
		if len(path) == 1 {
			return ArrV{ACopy(a.A, pe.Idx, nv.(ArrV).A, Const(64, 0), Const(64, uint64(pe.N))), a.N, a.ElW}
		}
		if len(path) == 2 && path[1].Field == -1 {
			return ArrV{AStore(a.A, Add(pe.Idx, path[1].Idx), nv.(*Term)), a.N, a.ElW}
		}
		panic("unsupported path below array window")
	}
	switch a := v.(type) {
	case ArrV:
		if len(path) != 1 {
			panic("nested path below scalar array")
		}
		return ArrV{AStore(a.A, pe.Idx, nv.(*Term)), a.N, a.ElW}
	case LazyV:
		k := append([]lazyCell(nil), a.Known...)
		k[pe.Idx.Val].Val = updatePath(k[pe.Idx.Val].Val, path[1:], nv)
		return LazyV{k, a.ElemT}
	case CellsV:
		if !pe.Idx.IsConst() {
			panic("symbolic index into cells (store)")
		}
		c := append([]Value(nil), a.C...)
		c[pe.Idx.Val] = updatePath(c[pe.Idx.Val], path[1:], nv)
		return CellsV{c}
	}
	panic(fmt.Sprintf("updatePath into %T", v))
}

func (ex *Exec) store(st *State, p PtrV, nv Value, pos token.Pos) bool {
	if p.Obj == 0 {
		ex.finish(st, "panic", "nil dereference (store)", pos)
		return false
	}
	o := st.heap[p.Obj]
	if o.Freed {
		ex.finish(st, "panic", "use after free (store)", pos)
		return false
	}
	st.heap[p.Obj] = &Obj{Val: updatePath(o.Val, p.Path, nv), T: o.T}
	return true
}

func to64(t *Term, signedSrc bool) *Term {
	if t.S.W == 64 {
		return t
	}
	if signedSrc {
		return Sext(t, 64)
	}
	return Zext(t, 64)
}

// backing array of a slice
func (ex *Exec) sliceArr(st *State, s SliceV) (ArrV, bool) {
	o := st.heap[s.Obj]
	a, ok := o.Val.(ArrV)
	return a, ok
}

// ---------- main loop ----------
func (ex *Exec) Run(fn *ssa.Function) {
	st := &State{heap: map[int]*Obj{}, consumed: Const(64, 0)}
	st.frames = []*Frame{{fn: fn, env: map[ssa.Value]Value{}, block: fn.Blocks[0], visits: map[int]int{}}}
	st.threads = []*Thr{{}}
	st.mus = map[string]MuState{}
	st.wgs = map[string]int{}
	st.ksByKey = map[string]*Term{}
	st.bigBytes = map[string]*Term{}
	// run package initialisers of repo packages reachable from the harness package
	ex.initDone = map[*ssa.Package]bool{}
	ex.runInits(st, fn.Pkg)
	for _, p := range ex.prog.AllPackages() {
		if p.Pkg.Path() == modPath+"/zz_verif_model" {
			ex.runInits(st, p)
		}
	}
	ex.work = append(ex.work, st)
	for len(ex.work) > 0 {
		if time.Now().After(ex.deadline) {
			ex.timedOut = true
			ex.outcomes = append(ex.outcomes, Outcome{Kind: "undecided", Msg: fmt.Sprintf("time limit reached with %d states unexplored", len(ex.work))})
			return
		}
		s := ex.work[len(ex.work)-1]
		ex.work = ex.work[:len(ex.work)-1]
		ex.paths++
		ex.runState(s)
	}
}

func (ex *Exec) assertStat(msg string, pos token.Pos) *AssertStat {
	a := ex.asserts[msg]
	if a == nil {
		a = &AssertStat{Msg: msg, Pos: ex.prog.Fset.Position(pos).String()}
		ex.asserts[msg] = a
	}
	return a
}

func (ex *Exec) pushCall(st *State, fn *ssa.Function, args []Value, callInstr ssa.Value) {
	if fn.Blocks == nil {
		panic("no body for " + fn.String())
	}
	ex.funcs[fn.String()] = true
	fr := &Frame{fn: fn, env: map[ssa.Value]Value{}, block: fn.Blocks[0], visits: map[int]int{}, call: callInstr}
	for i, p := range fn.Params {
		fr.env[p] = args[i]
	}
	st.frames = append(st.frames, fr)
}

func (ex *Exec) runState(st *State) {
	for {
		if len(st.frames) == 0 {
			if st.cur == 0 {
				ex.finish(st, "return", "", token.NoPos)
				return
			}
			st.threads[st.cur].done = true
			ex.wake(st)
			ex.schedule(st, false)
			return
		}
		fr := st.top()
		if fr.ip >= len(fr.block.Instrs) {
			panic("fell off block")
		}
		instr := fr.block.Instrs[fr.ip]
		if len(st.threads) > 1 && !st.granted && ex.visible(instr) != "" {
			ex.schedule(st, true)
			return
		}
		st.granted = false
		fr.ip++
		no := len(ex.outcomes)
		nw := len(ex.work)
		if !ex.step(st, fr, instr) {
			if os.Getenv("TRACE") != "" && len(ex.outcomes) == no && len(ex.work) == nw {
				fmt.Printf("SILENT END at %s: %v\n", ex.prog.Fset.Position(instr.Pos()), instr)
			}
			return
		}
	}
}

func (ex *Exec) jump(st *State, fr *Frame, to *ssa.BasicBlock) bool {
	fr.visits[to.Index]++
	ex.blocks++
	if fr.visits[to.Index] > ex.loopBound {
		ex.finish(st, "unwind", fmt.Sprintf("loop bound %d exceeded in %s block %d", ex.loopBound, fr.fn.Name(), to.Index), fr.fn.Pos())
		return false
	}
	fr.prev = fr.block
	fr.block = to
	fr.ip = 0
	// evaluate phis simultaneously
	var vals []Value
	var phis []*ssa.Phi
	for _, in := range to.Instrs {
		phi, ok := in.(*ssa.Phi)
		if !ok {
			break
		}
		for i, p := range to.Preds {
			if p == fr.prev {
				vals = append(vals, ex.get(st, phi.Edges[i]))
				break
			}
		}
		phis = append(phis, phi)
	}
	for i, phi := range phis {
		fr.env[phi] = vals[i]
	}
	fr.ip = len(phis)
	return true
}

type bencReg struct {
	T types.Type
	V Value
	N *Term // length of the encoding this value stands for (nil: unknown)
}

// takeBenc removes and returns the first registered value whose type is the target's.
func (st *State) takeBenc(t types.Type) (Value, bool) {
	r, ok := st.takeBencReg(t)
	return r.V, ok
}

func (st *State) takeBencReg(t types.Type) (bencReg, bool) {
	for i, r := range st.bencNext {
		if types.Identical(r.T, t) {
			st.bencNext = append(append([]bencReg(nil), st.bencNext[:i]...), st.bencNext[i+1:]...)
			return r, true
		}
	}
	return bencReg{}, false
}

// modelFuncs redirects library calls to executable Go models in package zz_verif_model.
var modelFuncs = map[string]string{
	"(*sync.Map).Load": "MapLoad", "(*sync.Map).Store": "MapStore", "(*sync.Map).LoadOrStore": "MapLoadOrStore",
	"(*sync.Map).Delete": "MapDelete", "(*sync.Map).Range": "MapRange",
	"(*math/rand/v2.Rand).Perm": "RandPerm", "math/rand/v2.Perm": "RandPermGlobal",
}

func (ex *Exec) modelFunc(name string) *ssa.Function {
	for _, p := range ex.prog.AllPackages() {
		if p.Pkg.Path() == modPath+"/zz_verif_model" {
			return p.Func(name)
		}
	}
	return nil
}

type mergeRet struct {
	st  *State
	val Value
}

var mergeSet = map[string]bool{
	"(github.com/jech/storrent/bitmap.Bitmap).Get": true, "(github.com/jech/storrent/bitmap.Bitmap).Empty": true,
	"(github.com/jech/storrent/bitmap.Bitmap).All": true, "(github.com/jech/storrent/bitmap.Bitmap).Count": true,
	"(github.com/jech/storrent/bitmap.Bitmap).Len": true,
	"(github.com/jech/storrent/hash.Hash).Equal": true,
	"github.com/jech/storrent/peer.isFast": true, "github.com/jech/storrent/peer.chunkSize": true,
	"github.com/jech/storrent/peer.fromChunk": true, "github.com/jech/storrent/peer.toChunk": true, "github.com/jech/storrent/peer.numPieces": true,
	"(*github.com/jech/storrent/tor/piece.Pieces).PieceLength": true, "(*github.com/jech/storrent/tor/piece.Pieces).pieceChunks": true,
	"(*github.com/jech/storrent/tor/piece.Piece).complete": true, "(*github.com/jech/storrent/tor/piece.Piece).busy": true,
	"(*github.com/jech/storrent/tor/piece.Piece).busyOrComplete": true,
	"(github.com/jech/storrent/peer/requests.Request).Cancelled": true,
	"(github.com/jech/storrent/path.Path).Equal": true, "(github.com/jech/storrent/path.Path).Within": true, "(github.com/jech/storrent/path.Path).Compare": true,
	"github.com/jech/storrent/pex.Find": true,
}

func scalarish(v Value) bool {
	switch x := v.(type) {
	case *Term:
		return true
	case TupleV:
		for _, e := range x {
			if !scalarish(e) {
				return false
			}
		}
		return true
	}
	return false
}

func mergeVals(c *Term, a, b Value) Value {
	switch x := a.(type) {
	case *Term:
		return Ite(c, x, b.(*Term))
	case TupleV:
		out := make(TupleV, len(x))
		for i := range x {
			out[i] = mergeVals(c, x[i], b.(TupleV)[i])
		}
		return out
	}
	panic("mergeVals")
}

// callMerged runs a side-effect-free callee on all of its paths and folds the returned
// scalars into one ite value, so that callers do not multiply. Returns handled=false when
// the callee turned out not to be mergeable here (the caller then inlines it normally).
func (ex *Exec) callMerged(st *State, f FuncV, args []Value, in *ssa.Call) (handled bool, cont bool) {
	sub := st.clone()
	base := len(sub.pc)
	fr := &Frame{fn: f.Fn, env: map[ssa.Value]Value{}, block: f.Fn.Blocks[0], visits: map[int]int{}, mergeRoot: true}
	for i, p := range f.Fn.Params {
		fr.env[p] = args[i]
	}
	for i, fvv := range f.Fn.FreeVars {
		fr.env[fvv] = f.Bound[i]
	}
	sub.frames = []*Frame{fr}
	ex.funcs[f.Fn.String()] = true
	savedWork := ex.work
	ex.work = []*State{sub}
	ex.mergeStack = append(ex.mergeStack, nil)
	nOut := len(ex.outcomes)
	for len(ex.work) > 0 {
		s := ex.work[len(ex.work)-1]
		ex.work = ex.work[:len(ex.work)-1]
		ex.runState(s)
	}
	ex.work = savedWork
	rets := ex.mergeStack[len(ex.mergeStack)-1]
	ex.mergeStack = ex.mergeStack[:len(ex.mergeStack)-1]
	ok := true
	for _, r := range rets {
		if !scalarish(r.val) || r.st.imprecise != st.imprecise {
			ok = false
			break
		}
		for k, o := range st.heap {
			if r.st.heap[k] != o {
				ok = false
				break
			}
		}
	}
	if !ok {
		// not pure here: forget the trial run (outcomes it recorded are re-found by inlining)
		ex.outcomes = ex.outcomes[:nOut]
		return false, false
	}
	if len(rets) == 0 {
		return true, false
	}
	if len(rets) == 1 {
		st.pc = append(st.pc, rets[0].st.pc[base:]...)
		st.top().env[in] = rets[0].val
		return true, true
	}
	var conds []*Term
	for _, r := range rets {
		conds = append(conds, And(r.st.pc[base:]...))
	}
	v := rets[len(rets)-1].val
	for k := len(rets) - 2; k >= 0; k-- {
		v = mergeVals(conds[k], rets[k].val, v)
	}
	if any := Or(conds...); !any.IsTrue() {
		st.pc = append(st.pc, any)
	}
	st.top().env[in] = v
	return true, true
}

func (ex *Exec) ret(st *State, fr *Frame, v Value) bool {
	if fr.mergeRoot {
		k := len(ex.mergeStack) - 1
		ex.mergeStack[k] = append(ex.mergeStack[k], mergeRet{st, v})
		st.frames = nil
		return false
	}
	st.frames = st.frames[:len(st.frames)-1]
	if len(st.frames) == 0 {
		return true
	}
	if fr.call != nil {
		st.top().env[fr.call] = v
	}
	return true
}

func (ex *Exec) step(st *State, fr *Frame, instr ssa.Instruction) bool {
	pos := instr.Pos()
	switch in := instr.(type) {
	case *ssa.DebugRef:
		return true
	case *ssa.Alloc:
		et := in.Type().(*types.Pointer).Elem()
		id := ex.newObj(st, zeroValue(et))
		st.heap[id].T = et
		fr.env[in] = PtrV{Obj: id}
	case *ssa.Phi:
		panic("phi outside jump")
	case *ssa.Jump:
		return ex.jump(st, fr, fr.block.Succs[0])
	case *ssa.If:
		c := ex.get(st, in.Cond).(*Term)
		t, f := ex.fork(st, c)
		if t != nil && f != nil {
			// st is t; f is clone
			ff := f.top()
			if ex.jump(f, ff, ff.block.Succs[1]) {
				ex.work = append(ex.work, f)
			}
			return ex.jump(st, fr, fr.block.Succs[0])
		}
		if t != nil {
			return ex.jump(st, fr, fr.block.Succs[0])
		}
		if f != nil {
			return ex.jump(st, fr, fr.block.Succs[1])
		}
		return false
	case *ssa.Return:
		var v Value
		switch len(in.Results) {
		case 0:
		case 1:
			v = ex.get(st, in.Results[0])
		default:
			tv := make(TupleV, len(in.Results))
			for i, r := range in.Results {
				tv[i] = ex.get(st, r)
			}
			v = tv
		}
		return ex.ret(st, fr, v)
	case *ssa.RunDefers:
		if len(fr.defers) > 0 {
			d := fr.defers[len(fr.defers)-1]
			fr.defers = fr.defers[:len(fr.defers)-1]
			fr.ip-- // come back to RunDefers afterwards
			return ex.callValue(st, d.fn, d.args, nil, pos)
		}
	case *ssa.Defer:
		fnv, args := ex.callTarget(st, &in.Call)
		if fnv == nil {
			return false
		}
		fr.defers = append(fr.defers, deferred{fnv, args, in})
	case *ssa.Panic:
		ex.finish(st, "panic", "explicit panic: "+ex.describe(ex.get(st, in.X)), pos)
		return false
	case *ssa.Store:
		p := ex.get(st, in.Addr).(PtrV)
		return ex.store(st, p, ex.get(st, in.Val), pos)
	case *ssa.UnOp:
		return ex.unop(st, fr, in)
	case *ssa.BinOp:
		x, y := ex.get(st, in.X), ex.get(st, in.Y)
		v, ok := ex.binop(st, in.Op, x, y, in.X.Type(), pos)
		if !ok {
			return false
		}
		fr.env[in] = v
	case *ssa.Convert:
		fr.env[in] = ex.convert(st, ex.get(st, in.X), in.X.Type(), in.Type())
	case *ssa.ChangeType:
		fr.env[in] = ex.get(st, in.X)
	case *ssa.ChangeInterface:
		fr.env[in] = ex.get(st, in.X)
	case *ssa.MakeInterface:
		fr.env[in] = IfaceV{T: in.X.Type(), V: ex.get(st, in.X)}
	case *ssa.TypeAssert:
		iv := ex.get(st, in.X).(IfaceV)
		ok := false
		if iv.T != nil {
			if types.IsInterface(in.AssertedType) {
				ok = types.Implements(iv.T, in.AssertedType.Underlying().(*types.Interface))
			} else {
				ok = types.Identical(iv.T, in.AssertedType)
			}
		}
		var res Value
		if ok {
			if types.IsInterface(in.AssertedType) {
				res = iv
			} else {
				res = iv.V
			}
		} else {
			res = zeroValue(in.AssertedType)
		}
		if in.CommaOk {
			fr.env[in] = TupleV{res, BoolC(ok)}
		} else {
			if !ok {
				ex.finish(st, "panic", "type assertion failed", pos)
				return false
			}
			fr.env[in] = res
		}
	case *ssa.SliceToArrayPointer:
		x := ex.get(st, in.X).(SliceV)
		at := in.Type().Underlying().(*types.Pointer).Elem().Underlying().(*types.Array)
		if !ex.require(st, Ule(Const(64, uint64(at.Len())), x.Len), "slice to array pointer: slice too short", pos) {
			return false
		}
		if x.Obj == 0 {
			fr.env[in] = PtrV{}
			return true
		}
		fr.env[in] = PtrV{x.Obj, []PathEl{{Field: -2, Idx: x.Off, N: int(at.Len())}}}
	case *ssa.Extract:
		fr.env[in] = ex.get(st, in.Tuple).(TupleV)[in.Index]
	case *ssa.Field:
		fr.env[in] = ex.get(st, in.X).(StructV).F[in.Field]
	case *ssa.FieldAddr:
		p := ex.get(st, in.X).(PtrV)
		if p.Obj == 0 {
			ex.finish(st, "panic", "nil dereference (field)", pos)
			return false
		}
		np := PtrV{p.Obj, append(append([]PathEl(nil), p.Path...), PathEl{Field: in.Field})}
		fr.env[in] = np
	case *ssa.IndexAddr:
		idxT := ex.get(st, in.Index).(*Term)
		idx := to64(idxT, isSigned(in.Index.Type()))
		switch x := ex.get(st, in.X).(type) {
		case SliceV:
			if !ex.require(st, Ult(idx, x.Len), "index out of range", pos) {
				return false
			}
			if lz, ok := st.heap[x.Obj].Val.(LazyV); ok {
				abs := Add(x.Off, idx)
				cur := st
				for j, kc := range lz.Known {
					t, f := ex.fork(cur, Eq(abs, kc.Idx))
					if t != nil {
						t.top().env[in] = PtrV{x.Obj, []PathEl{{Field: -1, Idx: Const(64, uint64(j))}}}
						if f != nil {
							// t is cur (reused); continue exploring with clone f, run t later
							ex.work = append(ex.work, t)
							cur = f
							continue
						}
						return t == st || func() bool { ex.work = append(ex.work, t); return false }()
					}
					cur = f
					if cur == nil {
						return false
					}
				}
				nl := LazyV{append(append([]lazyCell(nil), lz.Known...), lazyCell{abs, zeroValue(lz.ElemT)}), lz.ElemT}
				cur.heap[x.Obj] = &Obj{Val: nl}
				cur.top().env[in] = PtrV{x.Obj, []PathEl{{Field: -1, Idx: Const(64, uint64(len(lz.Known)))}}}
				if cur != st {
					ex.work = append(ex.work, cur)
					return false
				}
				return true
			}
			abs := Add(x.Off, idx)
			if cv, ok := st.heap[x.Obj].Val.(CellsV); ok && !abs.IsConst() {
				obj := x.Obj
				return ex.splitIndex(st, abs, len(cv.C), func(s *State, k int) {
					s.top().env[in] = PtrV{obj, []PathEl{{Field: -1, Idx: Const(64, uint64(k))}}}
				})
			}
			fr.env[in] = PtrV{x.Obj, []PathEl{{Field: -1, Idx: abs}}}
		case PtrV: // pointer to array
			at := in.X.Type().Underlying().(*types.Pointer).Elem().Underlying().(*types.Array)
			if !ex.require(st, Ult(idx, Const(64, uint64(at.Len()))), "index out of range", pos) {
				return false
			}
			if _, scalar := isScalarType(at.Elem()); !scalar && !idx.IsConst() {
				return ex.splitIndex(st, idx, int(at.Len()), func(s *State, k int) {
					s.top().env[in] = PtrV{x.Obj, append(append([]PathEl(nil), x.Path...), PathEl{Field: -1, Idx: Const(64, uint64(k))})}
				})
			}
			fr.env[in] = PtrV{x.Obj, append(append([]PathEl(nil), x.Path...), PathEl{Field: -1, Idx: idx})}
		default:
			panic(fmt.Sprintf("IndexAddr on %T", x))
		}
	case *ssa.Index:
		idxT := ex.get(st, in.Index).(*Term)
		idx := to64(idxT, isSigned(in.Index.Type()))
		switch x := ex.get(st, in.X).(type) {
		case ArrV:
			if !ex.require(st, Ult(idx, Const(64, uint64(x.N))), "index out of range", pos) {
				return false
			}
			fr.env[in] = Select(x.A, idx)
		case StringV:
			if x.Sym {
				if !ex.require(st, Ult(idx, x.Len), "index out of range", pos) {
					return false
				}
				fr.env[in] = Select(x.Arr, idx)
				return true
			}
			if !ex.require(st, Ult(idx, Const(64, uint64(len(x.S)))), "index out of range", pos) {
				return false
			}
			if !idx.IsConst() {
				var r *Term = Const(8, 0)
				for i := len(x.S) - 1; i >= 0; i-- {
					r = Ite(Eq(idx, Const(64, uint64(i))), Const(8, uint64(x.S[i])), r)
				}
				fr.env[in] = r
				return true
			}
			fr.env[in] = Const(8, uint64(x.S[idx.Val]))
		default:
			panic(fmt.Sprintf("Index on %T", x))
		}
	case *ssa.Slice:
		return ex.slice(st, fr, in)
	case *ssa.MakeSlice:
		et := in.Type().Underlying().(*types.Slice).Elem()
		l := to64(ex.get(st, in.Len).(*Term), isSigned(in.Len.Type()))
		c := to64(ex.get(st, in.Cap).(*Term), isSigned(in.Cap.Type()))
		if !ex.require(st, And(Sle(Const(64, 0), l), Sle(l, c), Sle(c, Const(64, 1<<40))), "makeslice: len out of range", pos) {
			return false
		}
		if w, ok := isScalarType(et); ok && w > 0 {
			ex.noteAlloc(st, Mul(c, Const(64, uint64(w/8))), pos)
			fr.env[in] = SliceV{ex.newObj(st, ArrV{AConst(w, 0), -1, w}), Const(64, 0), l, c}
		} else {
			if !c.IsConst() {
				fr.env[in] = SliceV{ex.newObj(st, LazyV{ElemT: et}), Const(64, 0), l, c}
				return true
			}
			cells := make([]Value, c.Val)
			for i := range cells {
				cells[i] = zeroValue(et)
			}
			fr.env[in] = SliceV{ex.newObj(st, CellsV{cells}), Const(64, 0), l, c}
		}
	case *ssa.MakeClosure:
		var b []Value
		for _, x := range in.Bindings {
			b = append(b, ex.get(st, x))
		}
		fr.env[in] = FuncV{Fn: in.Fn.(*ssa.Function), Bound: b}
	case *ssa.Call:
		fnv, args := ex.callTarget(st, &in.Call)
		if fnv == nil {
			return false
		}
		return ex.callValue(st, fnv, args, in, pos)
	case *ssa.Go:
		fnv, args := ex.callTarget(st, &in.Call)
		if fnv == nil {
			return false
		}
		f := fnv.(FuncV)
		if _, red := ex.cfg.Redirect[f.Fn.String()]; red {
			// `go f(...)` with f replaced by a harness recorder: run the recorder synchronously
			return ex.callValue(st, fnv, args, nil, pos)
		}
		if ex.cfg.goSkip(f.Fn.String()) || (f.Fn.Parent() != nil && ex.cfg.goSkip(f.Fn.Parent().String()+"$anon")) {
			ex.intr["GOSKIP:"+f.Fn.String()] = true
			return true
		}
		nf := &Frame{fn: f.Fn, env: map[ssa.Value]Value{}, block: f.Fn.Blocks[0], visits: map[int]int{}}
		for i, p := range f.Fn.Params {
			nf.env[p] = args[i]
		}
		for i, fvv := range f.Fn.FreeVars {
			nf.env[fvv] = f.Bound[i]
		}
		ex.funcs[f.Fn.String()] = true
		st.threads = append(st.threads, &Thr{frames: []*Frame{nf}})
	case *ssa.MapUpdate:
		m := ex.get(st, in.Map).(MapV)
		if m.Obj == 0 {
			ex.finish(st, "panic", "assignment to entry in nil map", pos)
			return false
		}
		key, val := ex.get(st, in.Key), ex.get(st, in.Value)
		mobj := m.Obj
		return ex.mapFind(st, st.heap[m.Obj].Val.(CellsV).C, key, func(s *State, idx int) {
			c := append([]Value(nil), s.heap[mobj].Val.(CellsV).C...)
			if idx >= 0 {
				c[idx+1] = val
			} else {
				c = append(c, key, val)
			}
			s.heap[mobj] = &Obj{Val: CellsV{c}}
		})
	case *ssa.Range:
		switch x := ex.get(st, in.X).(type) {
		case MapV:
			var c []Value
			if x.Obj != 0 {
				c = st.heap[x.Obj].Val.(CellsV).C
			}
			fr.env[in] = PtrV{Obj: ex.newObj(st, CellsV{append([]Value{Const(64, 0)}, c...)})}
		default:
			panic(fmt.Sprintf("range over %T", x))
		}
	case *ssa.Next:
		it := ex.get(st, in.Iter).(PtrV)
		c := st.heap[it.Obj].Val.(CellsV).C
		i := c[0].(*Term).Val
		tup := in.Type().(*types.Tuple)
		if int(2*i+1) >= len(c) {
			zv := func(t types.Type) Value {
				if b, ok := t.(*types.Basic); ok && b.Kind() == types.Invalid {
					return nil // unused key / value of the range statement
				}
				return zeroValue(t)
			}
			fr.env[in] = TupleV{False, zv(tup.At(1).Type()), zv(tup.At(2).Type())}
		} else {
			fr.env[in] = TupleV{True, c[2*i+1], c[2*i+2]}
			nc := append([]Value(nil), c...)
			nc[0] = Const(64, i+1)
			st.heap[it.Obj] = &Obj{Val: CellsV{nc}}
		}
	case *ssa.Lookup:
		switch x := ex.get(st, in.X).(type) {
		case MapV:
			vt := in.X.Type().Underlying().(*types.Map).Elem()
			var cells []Value
			if x.Obj != 0 {
				cells = st.heap[x.Obj].Val.(CellsV).C
			}
			return ex.mapFind(st, cells, ex.get(st, in.Index), func(s *State, idx int) {
				var res Value = zeroValue(vt)
				ok := False
				if idx >= 0 {
					res, ok = cells[idx+1], True
				}
				if in.CommaOk {
					s.top().env[in] = TupleV{res, ok}
				} else {
					s.top().env[in] = res
				}
			})
		default:
			panic(fmt.Sprintf("Lookup on %T", x))
		}
	case *ssa.MakeMap:
		fr.env[in] = MapV{ex.newObj(st, CellsV{})}
	case *ssa.MakeChan:
		c := ex.get(st, in.Size).(*Term)
		cp := int(c.Val)
		if cp == 0 {
			cp = 1 // prototype: hand-over slot
		}
		fr.env[in] = ChanV{ex.newObj(st, ChanState{Cap: cp})}
	case *ssa.Send:
		ch := ex.get(st, in.Chan).(ChanV)
		if ch.Obj == 0 {
			ex.finish(st, "blocked", "send on nil channel", pos)
			return false
		}
		cs := st.heap[ch.Obj].Val.(ChanState)
		if cs.Closed {
			ex.finish(st, "panic", "send on closed channel", pos)
			return false
		}
		if cs.Env {
			ex.wake(st)
			return true
		}
		if len(cs.Q) >= cs.Cap {
			ex.finish(st, "blocked", "send on full channel", pos)
			return false
		}
		cs.Q = append(append([]Value(nil), cs.Q...), ex.get(st, in.X))
		st.heap[ch.Obj] = &Obj{Val: cs}
		ex.wake(st)
	case *ssa.Select:
		if len(st.threads) > 1 || ex.selectReady(st, in) != 1 || ex.selectHasEnv(st, in) {
			if len(st.threads) == 1 && ex.selectReady(st, in) == 0 {
				if in.Blocking {
					ex.finish(st, "blocked", "select with no ready case", pos)
					return false
				}
			}
			return ex.selectFork(st, fr, in)
		}
		chosen := -1
		var recvVal Value
		recvOk := False
		for i, s := range in.States {
			ch := ex.get(st, s.Chan).(ChanV)
			if ch.Obj == 0 {
				continue
			}
			cs := st.heap[ch.Obj].Val.(ChanState)
			if s.Dir == types.SendOnly {
				if cs.Closed {
					ex.finish(st, "panic", "send on closed channel", pos)
					return false
				}
				if len(cs.Q) < cs.Cap {
					cs.Q = append(append([]Value(nil), cs.Q...), ex.get(st, s.Send))
					st.heap[ch.Obj] = &Obj{Val: cs}
					chosen = i
					break
				}
			} else {
				if len(cs.Q) > 0 {
					recvVal = cs.Q[0]
					cs.Q = append([]Value(nil), cs.Q[1:]...)
					st.heap[ch.Obj] = &Obj{Val: cs}
					recvOk = True
					chosen = i
					break
				}
				if cs.Closed {
					chosen = i
					break
				}
			}
		}
		if chosen < 0 && in.Blocking {
			ex.finish(st, "blocked", "select with no ready case", pos)
			return false
		}
		tup := in.Type().(*types.Tuple)
		res := make(TupleV, tup.Len())
		res[0] = Const(64, uint64(int64(chosen)))
		res[1] = recvOk
		k := 2
		for i, s := range in.States {
			if s.Dir == types.RecvOnly {
				if i == chosen && recvVal != nil {
					res[k] = recvVal
				} else {
					res[k] = zeroValue(tup.At(k).Type())
				}
				k++
			}
		}
		fr.env[in] = res
	default:
		panic(fmt.Sprintf("unsupported instruction %T: %v in %s", instr, instr, fr.fn))
	}
	return true
}

// mapFind locates key among the (key,value) cells of a map. With concrete comparisons it calls
// cont on st and returns true; when a comparison is symbolic it forks on equality with each
// present key (st is then abandoned, all continuations are queued) and returns false.
func (ex *Exec) mapFind(st *State, c []Value, key Value, cont func(s *State, idx int)) bool {
	allConst := true
	hit := -1
	for i := 0; i < len(c); i += 2 {
		eq := ex.valEq(c[i], key)
		if eq.IsTrue() {
			hit = i
			break
		}
		if !eq.IsFalse() {
			allConst = false
			break
		}
	}
	if allConst {
		cont(st, hit)
		return true
	}
	var neg []*Term
	for i := 0; i < len(c); i += 2 {
		eq := ex.valEq(c[i], key)
		if eq.IsFalse() {
			continue
		}
		cond := And(append(append([]*Term(nil), neg...), eq)...)
		if !cond.IsFalse() && ex.feasible(st, cond) {
			o := st.clone()
			o.pc = append(o.pc, cond)
			cont(o, i)
			ex.work = append(ex.work, o)
		}
		if eq.IsTrue() {
			return false
		}
		neg = append(neg, Not(eq))
	}
	cond := And(neg...)
	if !cond.IsFalse() && ex.feasible(st, cond) {
		o := st.clone()
		o.pc = append(o.pc, cond)
		cont(o, -1)
		ex.work = append(ex.work, o)
	}
	return false
}

// needConcrete makes the symbolic parts of the given SSA operands (integer terms, or the
// offset/length/capacity of slices) concrete by a case split over 0..bound and re-executes
// the current instruction in every feasible case. Returns true if a split was made (the
// caller must then return false: st is abandoned).
func (ex *Exec) needConcrete(st *State, operands []ssa.Value, bound int) bool {
	for _, op := range operands {
		if op == nil {
			continue
		}
		if _, isConst := op.(*ssa.Const); isConst {
			continue
		}
		v, ok := st.top().env[op]
		if !ok {
			continue
		}
		var sym *Term
		var rebuild func(c *Term) Value
		switch x := v.(type) {
		case *Term:
			if !x.IsConst() && x.S.K == SBV {
				sym = x
				rebuild = func(c *Term) Value { return c }
			}
		case SliceV:
			switch {
			case !x.Off.IsConst():
				sym = x.Off
				rebuild = func(c *Term) Value { return SliceV{x.Obj, c, x.Len, x.Cap} }
			case !x.Len.IsConst():
				sym = x.Len
				rebuild = func(c *Term) Value { return SliceV{x.Obj, x.Off, c, x.Cap} }
			case !x.Cap.IsConst():
				sym = x.Cap
				rebuild = func(c *Term) Value { return SliceV{x.Obj, x.Off, x.Len, c} }
			}
		}
		if sym == nil {
			continue
		}
		for k := 0; k <= bound; k++ {
			cv := Const(sym.S.W, uint64(k))
			c := Eq(sym, cv)
			if c.IsFalse() || !ex.feasible(st, c) {
				continue
			}
			o := st.clone()
			o.pc = append(o.pc, c)
			o.top().env[op] = rebuild(cv)
			o.top().ip--
			ex.work = append(ex.work, o)
		}
		// values beyond the bound are reported, not silently dropped
		beyond := Ult(Const(sym.S.W, uint64(bound)), sym)
		if ex.feasible(st, beyond) {
			o := st.clone()
			o.pc = append(o.pc, beyond)
			ex.finish(o, "unwind", fmt.Sprintf("container size beyond the concretisation bound %d", bound), token.NoPos)
		}
		return true
	}
	return false
}

func cellsBound(st *State, vals ...Value) int {
	b := 12
	for _, v := range vals {
		if s, ok := v.(SliceV); ok && s.Obj != 0 {
			if c, ok := st.heap[s.Obj].Val.(CellsV); ok && len(c.C) > b {
				b = len(c.C)
			}
		}
	}
	return b + 1
}

func (ex *Exec) stringBytes(st *State, s StringV) SliceV {
	if s.Sym {
		return SliceV{ex.newObj(st, ArrV{s.Arr, -1, 8}), Const(64, 0), s.Len, s.Len}
	}
	a := AConst(8, 0)
	for i := 0; i < len(s.S); i++ {
		a = AStore(a, Const(64, uint64(i)), Const(8, uint64(s.S[i])))
	}
	n := Const(64, uint64(len(s.S)))
	return SliceV{ex.newObj(st, ArrV{a, -1, 8}), Const(64, 0), n, n}
}

func unsafeChars(class int) []byte {
	if class == 1 {
		return []byte{'\r', '\n'}
	}
	return []byte{'<', '>', '"', '\''}
}

// unsafeTerm: "the string contains a character of the unsafe class".
func (ex *Exec) unsafeTerm(st *State, s StringV) *Term {
	if s.U != nil {
		return s.U
	}
	cs := unsafeChars(st.unsafeClass)
	if !s.Sym {
		for i := 0; i < len(s.S); i++ {
			for _, c := range cs {
				if s.S[i] == c {
					return True
				}
			}
		}
		return False
	}
	var u *Term = False
	for i := 0; i < s.Max; i++ {
		var is *Term = False
		for _, c := range cs {
			is = Or(is, Eq(Select(s.Arr, Const(64, uint64(i))), Const(8, uint64(c))))
		}
		u = Or(u, And(Ult(Const(64, uint64(i)), s.Len), is))
	}
	return u
}

// taintOf collects the unsafe predicate of every string reachable inside a formatted argument.
// Strings that are literals of the program are markup, not attacker data, and do not count.
func (ex *Exec) taintOf(st *State, v Value, depth int) *Term {
	if depth > 4 {
		return False
	}
	switch x := v.(type) {
	case StringV:
		if !x.Sym {
			return False
		}
		return ex.unsafeTerm(st, x)
	case IfaceV:
		if x.T == nil {
			return False
		}
		return ex.taintOf(st, x.V, depth+1)
	case StructV:
		var u *Term = False
		for _, f := range x.F {
			u = Or(u, ex.taintOf(st, f, depth+1))
		}
		return u
	case PtrV:
		if x.Obj == 0 {
			return False
		}
		if o := st.heap[x.Obj]; o != nil && len(x.Path) == 0 {
			return ex.taintOf(st, o.Val, depth+1)
		}
	case SliceV:
		if x.Obj == 0 {
			return False
		}
		if c, ok := st.heap[x.Obj].Val.(CellsV); ok {
			var u *Term = False
			for _, e := range c.C {
				u = Or(u, ex.taintOf(st, e, depth+1))
			}
			return u
		}
	}
	return False
}

// splitIndex continues the execution once for every feasible concrete value k in [0,n)
// of idx; st itself is abandoned (all continuations are queued).
func (ex *Exec) splitIndex(st *State, idx *Term, n int, set func(s *State, k int)) bool {
	for k := 0; k < n; k++ {
		c := Eq(idx, Const(64, uint64(k)))
		if c.IsFalse() || !ex.feasible(st, c) {
			continue
		}
		o := st.clone()
		o.pc = append(o.pc, c)
		set(o, k)
		ex.work = append(ex.work, o)
	}
	return false
}

func (ex *Exec) describe(v Value) string {
	if iv, ok := v.(IfaceV); ok {
		if s, ok := iv.V.(StringV); ok {
			return s.S
		}
		return fmt.Sprintf("%v", iv.T)
	}
	return fmt.Sprintf("%T", v)
}

func (ex *Exec) noteAlloc(st *State, bytes *Term, pos token.Pos) {
	st.allocs = append(st.allocs, bytes)
}

func (ex *Exec) unop(st *State, fr *Frame, in *ssa.UnOp) bool {
	x := ex.get(st, in.X)
	switch in.Op {
	case token.MUL:
		v, ok := ex.load(st, x.(PtrV), in.Pos())
		if !ok {
			return false
		}
		fr.env[in] = v
	case token.ARROW:
		ch := x.(ChanV)
		if ch.Obj == 0 {
			ex.finish(st, "blocked", "recv on nil channel", in.Pos())
			return false
		}
		cs := st.heap[ch.Obj].Val.(ChanState)
		var v Value
		ok := True
		if len(cs.Q) > 0 {
			v = cs.Q[0]
			cs.Q = append([]Value(nil), cs.Q[1:]...)
			st.heap[ch.Obj] = &Obj{Val: cs}
		} else if cs.Closed {
			v = zeroValue(in.X.Type().Underlying().(*types.Chan).Elem())
			ok = False
		} else if cs.Env {
			v = zeroValue(in.X.Type().Underlying().(*types.Chan).Elem())
			if cs.Budget > 0 {
				cs.Budget--
				cs.Env = cs.Budget > 0
				st.heap[ch.Obj] = &Obj{Val: cs}
			}
		} else {
			ex.finish(st, "blocked", "recv on empty channel", in.Pos())
			return false
		}
		if in.CommaOk {
			fr.env[in] = TupleV{v, ok}
		} else {
			fr.env[in] = v
		}
	case token.NOT:
		fr.env[in] = Not(x.(*Term))
	case token.SUB:
		fr.env[in] = Neg(x.(*Term))
	case token.XOR:
		fr.env[in] = BNot(x.(*Term))
	default:
		panic("unop " + in.Op.String())
	}
	return true
}

func (ex *Exec) valEq(a, b Value) *Term {
	switch x := a.(type) {
	case *Term:
		return Eq(x, b.(*Term))
	case PtrV:
		y := b.(PtrV)
		if x.Obj != y.Obj || len(x.Path) != len(y.Path) {
			return False
		}
		c := True
		for i := range x.Path {
			if x.Path[i].Field != y.Path[i].Field {
				return False
			}
			if x.Path[i].Field < 0 {
				c = And(c, Eq(x.Path[i].Idx, y.Path[i].Idx))
			}
		}
		return c
	case IfaceV:
		y := b.(IfaceV)
		if x.T == nil || y.T == nil {
			return BoolC(x.T == nil && y.T == nil)
		}
		if !types.Identical(x.T, y.T) {
			return False
		}
		return ex.valEq(x.V, y.V)
	case StringV:
		y := b.(StringV)
		if !x.Sym && !y.Sym {
			return BoolC(x.S == y.S)
		}
		return strEq(x, y)
	case StructV:
		y := b.(StructV)
		c := True
		for i := range x.F {
			c = And(c, ex.valEq(x.F[i], y.F[i]))
		}
		return c
	case ArrV:
		y := b.(ArrV)
		c := True
		for i := 0; i < x.N; i++ {
			c = And(c, Eq(Select(x.A, Const(64, uint64(i))), Select(y.A, Const(64, uint64(i)))))
		}
		return c
	case CellsV:
		y := b.(CellsV)
		c := True
		for i := range x.C {
			c = And(c, ex.valEq(x.C[i], y.C[i]))
		}
		return c
	case OpaqueV:
		y, ok := b.(OpaqueV)
		if ok && x.Kind == "float" {
			return ex.freshVar("feq", BoolSort)
		}
		return BoolC(ok && x == y)
	case SliceV: // only comparison with nil
		y := b.(SliceV)
		if y.Obj == 0 {
			return BoolC(x.Obj == 0)
		}
		return BoolC(x.Obj == 0 && y.Obj == 0)
	case MapV:
		return BoolC(x.Obj == b.(MapV).Obj)
	case ChanV:
		return BoolC(x.Obj == b.(ChanV).Obj)
	case FuncV:
		return BoolC(x.Fn == nil && b.(FuncV).Fn == nil)
	}
	panic(fmt.Sprintf("valEq %T", a))
}

func (ex *Exec) binop(st *State, op token.Token, x, y Value, xt types.Type, pos token.Pos) (Value, bool) {
	switch op {
	case token.EQL:
		return ex.valEq(x, y), true
	case token.NEQ:
		return Not(ex.valEq(x, y)), true
	}
	if sx, ok := x.(StringV); ok && (sx.Sym || y.(StringV).Sym) {
		sy := y.(StringV)
		switch op {
		case token.LSS:
			return strLess(sx, sy), true
		case token.GTR:
			return strLess(sy, sx), true
		case token.LEQ:
			return Not(strLess(sy, sx)), true
		case token.GEQ:
			return Not(strLess(sx, sy)), true
		case token.ADD:
			// concatenation: content not tracked, only whether it may carry an unsafe character
			n := Add(strLenT(sx), strLenT(sy))
			u := Or(ex.taintOf(st, sx, 0), ex.taintOf(st, sy, 0)) // literals of the program are markup
			if strMax(sx)+strMax(sy) <= 64 {
				// short strings: the content is tracked exactly
				arr := AConst(8, 0)
				put := func(arr *Term, off *Term, v StringV) *Term {
					if v.Sym {
						return ACopy(arr, off, v.Arr, Const(64, 0), v.Len)
					}
					for i := 0; i < len(v.S); i++ {
						arr = AStore(arr, Add(off, Const(64, uint64(i))), Const(8, uint64(v.S[i])))
					}
					return arr
				}
				arr = put(arr, Const(64, 0), sx)
				arr = put(arr, strLenT(sx), sy)
				return StringV{Sym: true, Arr: arr, Len: n, Max: strMax(sx) + strMax(sy), U: u}, true
			}
			ex.fresh++
			nm := fmt.Sprintf("cat!%d", ex.fresh)
			return StringV{Sym: true, Arr: AVar(nm, 8), Len: n, Max: strMax(sx) + strMax(sy), U: u}, true
		}
		panic("symbolic string op " + op.String())
	}
	if sx, ok := x.(StringV); ok {
		sy := y.(StringV)
		switch op {
		case token.ADD:
			return StringV{S: sx.S + sy.S}, true
		case token.LSS:
			return BoolC(sx.S < sy.S), true
		case token.GTR:
			return BoolC(sx.S > sy.S), true
		}
	}
	_, xo := x.(OpaqueV)
	_, yo := y.(OpaqueV)
	if xo || yo {
		switch op {
		case token.LSS, token.LEQ, token.GTR, token.GEQ:
			return ex.freshVar("fcmp", BoolSort), true
		}
		return OpaqueV{"float", 0}, true
	}
	a, b := x.(*Term), y.(*Term)
	sg := isSigned(xt)
	if op == token.SHL || op == token.SHR || op == token.AND_NOT {
		// shift count may have different width
		if op == token.AND_NOT {
			return BAnd(a, BNot(b)), true
		}
		w := a.S.W
		var cnt *Term
		if b.S.W > w {
			// if count >= w result is 0 / sign
			big := Not(Ult(b, Const(b.S.W, uint64(w))))
			cnt = Extract(w-1, 0, b)
			var r *Term
			if op == token.SHL {
				r = Ite(big, Const(w, 0), Shl(a, cnt))
			} else if sg {
				r = Ite(big, Ashr(a, Const(w, uint64(w-1))), Ashr(a, cnt))
			} else {
				r = Ite(big, Const(w, 0), Lshr(a, cnt))
			}
			return r, true
		}
		cnt = Zext(b, w)
		if op == token.SHL {
			return Shl(a, cnt), true
		}
		if sg {
			return Ashr(a, cnt), true
		}
		return Lshr(a, cnt), true
	}
	switch op {
	case token.ADD:
		return Add(a, b), true
	case token.SUB:
		return Sub(a, b), true
	case token.MUL:
		return Mul(a, b), true
	case token.QUO, token.REM:
		if !ex.require(st, Not(Eq(b, Const(b.S.W, 0))), "integer divide by zero", pos) {
			return nil, false
		}
		if op == token.QUO {
			if sg {
				return SDiv(a, b), true
			}
			return UDiv(a, b), true
		}
		if sg {
			return SRem(a, b), true
		}
		return URem(a, b), true
	case token.AND:
		if a.S.K == SBool {
			return And(a, b), true
		}
		return BAnd(a, b), true
	case token.OR:
		if a.S.K == SBool {
			return Or(a, b), true
		}
		return BOr(a, b), true
	case token.XOR:
		return BXor(a, b), true
	case token.LSS:
		if sg {
			return Slt(a, b), true
		}
		return Ult(a, b), true
	case token.LEQ:
		if sg {
			return Sle(a, b), true
		}
		return Ule(a, b), true
	case token.GTR:
		if sg {
			return Slt(b, a), true
		}
		return Ult(b, a), true
	case token.GEQ:
		if sg {
			return Sle(b, a), true
		}
		return Ule(b, a), true
	}
	panic("binop " + op.String())
}

func (ex *Exec) convert(st *State, v Value, from, to types.Type) Value {
	if t, ok := v.(*Term); ok {
		if w, ok := isScalarType(to); ok && w > 0 {
			if w <= t.S.W {
				return Extract(w-1, 0, t)
			}
			if isSigned(from) {
				return Sext(t, w)
			}
			return Zext(t, w)
		}
		if b, ok := to.Underlying().(*types.Basic); ok && b.Info()&types.IsFloat != 0 {
			return OpaqueV{"float", 0}
		}
	}
	if _, ok := v.(OpaqueV); ok {
		if w, ok := isScalarType(to); ok && w > 0 {
			return ex.freshVar("fromfloat", BV(w))
		}
		return v
	}
	// string <-> []byte
	if s, ok := v.(StringV); ok {
		if _, ok := to.Underlying().(*types.Slice); ok {
			a := AConst(8, 0)
			for i := 0; i < len(s.S); i++ {
				a = AStore(a, Const(64, uint64(i)), Const(8, uint64(s.S[i])))
			}
			n := Const(64, uint64(len(s.S)))
			return SliceV{ex.newObj(st, ArrV{a, -1, 8}), Const(64, 0), n, n}
		}
		return v
	}
	if sl, ok := v.(SliceV); ok {
		if b, ok := to.Underlying().(*types.Basic); ok && b.Info()&types.IsString != 0 {
			if sl.Obj == 0 {
				return StringV{S: ""}
			}
			a, _ := ex.sliceArr(st, sl)
			return StringV{Sym: true, Arr: ACopy(AConst(8, 0), Const(64, 0), a.A, sl.Off, sl.Len), Len: sl.Len, Max: 64}
		}
	}
	if types.Identical(from.Underlying(), to.Underlying()) {
		return v
	}
	panic(fmt.Sprintf("convert %v -> %v (%T)", from, to, v))
}

func (ex *Exec) slice(st *State, fr *Frame, in *ssa.Slice) bool {
	pos := in.Pos()
	var lo, hi, mx *Term
	if in.Low != nil {
		lo = to64(ex.get(st, in.Low).(*Term), isSigned(in.Low.Type()))
	} else {
		lo = Const(64, 0)
	}
	if in.High != nil {
		hi = to64(ex.get(st, in.High).(*Term), isSigned(in.High.Type()))
	}
	if in.Max != nil {
		mx = to64(ex.get(st, in.Max).(*Term), isSigned(in.Max.Type()))
	}
	switch x := ex.get(st, in.X).(type) {
	case SliceV:
		if hi == nil {
			hi = x.Len
		}
		capv := x.Cap
		if mx != nil {
			capv = mx
		}
		c := And(Ule(lo, hi), Ule(hi, capv), Ule(capv, x.Cap))
		if !ex.require(st, c, "slice bounds out of range", pos) {
			return false
		}
		if x.Obj == 0 {
			fr.env[in] = x
			return true
		}
		fr.env[in] = SliceV{x.Obj, Add(x.Off, lo), Sub(hi, lo), Sub(capv, lo)}
	case PtrV: // pointer to array
		at := in.X.Type().Underlying().(*types.Pointer).Elem().Underlying().(*types.Array)
		n := Const(64, uint64(at.Len()))
		if hi == nil {
			hi = n
		}
		if !ex.require(st, And(Ule(lo, hi), Ule(hi, n)), "slice bounds out of range", pos) {
			return false
		}
		if len(x.Path) != 0 {
			// array nested in a struct (or behind a window): the slice is taken over a snapshot of the
			// array (sound for reads; the repository only reads through such slices: dir.hash[:])
			av, ok := ex.load(st, x, pos)
			if !ok {
				return false
			}
			a, isArr := av.(ArrV)
			if !isArr {
				panic("slice of a non-scalar array inside a struct not supported")
			}
			id := ex.newObj(st, ArrV{a.A, -1, a.ElW})
			fr.env[in] = SliceV{id, lo, Sub(hi, lo), Sub(n, lo)}
			return true
		}
		fr.env[in] = SliceV{x.Obj, lo, Sub(hi, lo), Sub(n, lo)}
	case StringV:
		if hi == nil {
			hi = Const(64, uint64(len(x.S)))
		}
		if !lo.IsConst() || !hi.IsConst() {
			panic("symbolic string slice")
		}
		if lo.Val > hi.Val || hi.Val > uint64(len(x.S)) {
			ex.finish(st, "panic", "slice bounds out of range", pos)
			return false
		}
		fr.env[in] = StringV{S: x.S[lo.Val:hi.Val]}
	default:
		panic(fmt.Sprintf("slice of %T", x))
	}
	return true
}

// callTarget evaluates callee and args; returns nil on dead path
func (ex *Exec) callTarget(st *State, c *ssa.CallCommon) (Value, []Value) {
	var args []Value
	if c.IsInvoke() {
		recv := ex.get(st, c.Value).(IfaceV)
		if recv.T == nil {
			ex.finish(st, "panic", "nil interface method call", c.Pos())
			return nil, nil
		}
		if ov, ok := recv.V.(OpaqueV); ok {
			// opaque receiver: havoc
			for _, a := range c.Args {
				args = append(args, ex.get(st, a))
			}
			if ov.Kind == "ctxlive" {
				return OpaqueV{"livectx:" + c.Method.Name(), 0}, args
			}
			if ov.Kind == "sha1digest" {
				return OpaqueV{"sha1:" + c.Method.Name(), ov.Ref}, args
			}
			if strings.HasPrefix(ov.Kind, "env") && c.Method.Name() != "Err" && c.Method.Name() != "Done" {
				return OpaqueV{"envinvoke:" + c.Method.Name(), 0}, args
			}
			return OpaqueV{"invoke:" + c.Method.Name(), 0}, args
		}
		ms := ex.prog.MethodSets.MethodSet(recv.T)
		sel := ms.Lookup(c.Method.Pkg(), c.Method.Name())
		if sel == nil {
			panic(fmt.Sprintf("method %s not found on %v", c.Method.Name(), recv.T))
		}
		fn := ex.prog.MethodValue(sel)
		args = append(args, recv.V)
		for _, a := range c.Args {
			args = append(args, ex.get(st, a))
		}
		return FuncV{Fn: fn}, args
	}
	fv := ex.get(st, c.Value)
	for _, a := range c.Args {
		args = append(args, ex.get(st, a))
	}
	return fv, args
}

func (ex *Exec) callValue(st *State, fv Value, args []Value, in *ssa.Call, pos token.Pos) bool {
	fr := st.top()
	setRes := func(v Value) {
		if in != nil {
			fr.env[in] = v
		}
	}
	switch f := fv.(type) {
	case OpaqueV:
		switch f.Kind {
		case "invoke:Err": // context.Context.Err: cancelled or not, at any point; once cancelled, for good
			if in != nil {
				if st.ctxDone {
					setRes(errVal("context.Canceled"))
					return true
				}
				o := st.clone()
				o.ctxDone = true
				o.top().env[in] = errVal("context.Canceled")
				ex.work = append(ex.work, o)
				setRes(nilErr)
			}
			return true
		case "livectx:Err": // a context that is never cancelled
			if in != nil {
				setRes(nilErr)
			}
			return true
		case "livectx:Done":
			if in != nil {
				setRes(ChanV{})
			}
			return true
		case "invoke:Done":
			if in != nil {
				setRes(ChanV{ex.newObj(st, ChanState{Env: true})})
			}
			return true
		}
		if strings.HasPrefix(f.Kind, "sha1:") {
			w := st.heap[f.Ref].Val.(WriterV)
			switch f.Kind {
			case "sha1:Write":
				b := args[0].(SliceV)
				if b.Obj != 0 {
					ba, _ := ex.sliceArr(st, b)
					w.A = ACopy(w.A, w.N, ba.A, b.Off, b.Len)
					w.N = Add(w.N, b.Len)
					st.heap[f.Ref] = &Obj{Val: w}
				}
				if in != nil {
					setRes(TupleV{b.Len, nilErr})
				}
				return true
			case "sha1:Sum":
				msg := SliceV{ex.newObj(st, ArrV{w.A, -1, 8}), Const(64, 0), w.N, w.N}
				out := ex.sha1Of(st, msg)
				if in != nil {
					n := Const(64, 20)
					setRes(SliceV{ex.newObj(st, ArrV{out, -1, 8}), Const(64, 0), n, n})
				}
				return true
			}
		}
		if strings.HasPrefix(f.Kind, "envinvoke:") {
			// a method of an environment object (response body, ...): arbitrary result by contract
			if in != nil {
				ex.envResult(st, in, f.Kind)
			}
			return true
		}
		if in != nil {
			setRes(ex.havoc(st, in.Type(), "opaque"))
		}
		st.imprecise = true
		return true
	case FuncV:
		if f.Builtin != nil {
			return ex.builtin(st, f.Builtin, args, in, pos)
		}
		if f.Fn == nil {
			ex.finish(st, "panic", "call of nil func", pos)
			return false
		}
		name := f.Fn.String()
		if ex.inInit && f.Fn.Name() == "init" && f.Fn.Pkg != nil && f.Fn.Pkg != st.top().fn.Pkg {
			return true
		}
		if rn, ok := ex.cfg.Redirect[name]; ok {
			if rf := findFunc(ex.prog, ex.cfg.Pkg, rn); rf != nil {
				ex.intr["REDIRECT:"+name+"->"+rn] = true
				st.stubbed = true
				f = FuncV{Fn: rf}
				name = rf.String()
			} else {
				panic("redirect target not found: " + rn)
			}
		}
		if mn, ok := modelFuncs[name]; ok {
			if mf := ex.modelFunc(mn); mf != nil {
				ex.intr["MODEL:"+name] = true
				f = FuncV{Fn: mf}
				name = mf.String()
			}
		}
		if ex.cfg.cut(name) {
			ex.intr["CUT:"+name] = true
			st.stubbed = true
			st.effects = append(st.effects, "cut:"+f.Fn.Name())
			if in != nil {
				ex.havocResult(st, in, name)
			}
			return true
		}
		if envStubs[name] {
			ex.intr["ENV:"+name] = true
			st.stubbed = true
			st.effects = append(st.effects, "env:"+name)
			if in != nil {
				ex.envResult(st, in, name)
			}
			return true
		}
		if h, ok := intrinsics[name]; ok {
			ex.intr[name] = true
			return h(ex, st, args, in, pos)
		}
		if isHarnessPrim(f.Fn) {
			return ex.harnessPrim(st, f.Fn, args, in, pos)
		}
		if f.Fn.Blocks == nil || !ex.inlineable(f.Fn) {
			ex.intr["HAVOC:"+name] = true
			st.imprecise = true
			if in != nil {
				ex.havocResult(st, in, name)
			}
			return true
		}
		if in != nil && mergeSet[name] && len(st.threads) == 1 && !ex.cfg.NoMerge {
			if handled, cont := ex.callMerged(st, f, args, in); handled {
				return cont
			}
		}
		all := args
		var callInstr ssa.Value
		if in != nil {
			callInstr = in
		}
		ex.pushCall(st, f.Fn, all, callInstr)
		nf := st.top()
		for i, fvv := range f.Fn.FreeVars {
			nf.env[fvv] = f.Bound[i]
		}
		return true
	}
	panic(fmt.Sprintf("call of %T", fv))
}

func (ex *Exec) inlineable(fn *ssa.Function) bool {
	if fn.Pkg == nil {
		return true // synthetic wrappers, generics instances
	}
	p := fn.Pkg.Pkg.Path()
	if strings.HasPrefix(p, "github.com/jech/storrent") {
		return true
	}
	switch p {
	case "errors", "encoding/binary", "io", "slices", "cmp", "math/bits", "net/netip", "bytes", "internal/byteorder", "unique", "internal/bytealg":
		return true
	}
	return false
}

// envStubs: library calls that belong to the environment (network, formatting of requests):
// their results are arbitrary values of their type by contract, so a path through them stays
// precise (it is marked as stubbed: no native counterpart).
var envStubs = map[string]bool{
	"net/http.NewRequest": true, "(*net/http.Client).Do": true, "(*net/http.Request).WithContext": true, "(net/http.Header).Set": true,
	"strconv.Itoa": true, "strconv.FormatInt": true, "strconv.Atoi": true, "strconv.ParseInt": true,
	"(net/url.Values).Set": true, "(net/url.Values).Encode": true, "(*net/url.URL).String": true, "(*net/url.URL).Hostname": true, "(*net/url.URL).Port": true,
	"github.com/jech/storrent/httpclient.Get": true, "net/netip.ParseAddr": true, "net.JoinHostPort": true,
	"(net/http.Header).Get": true, "(net/url.Values).Add": true,
	"net/http.Error": true, "net/http.NotFound": true, "net/http.Redirect": true, "(*net/http.Request).ParseForm": true, "(*net/http.Request).PathValue": true,
	"(net/netip.AddrPort).String": true, "(net/netip.Addr).String": true, "(github.com/jech/storrent/hash.Hash).String": true,
	"encoding/hex.EncodeToString": true, "hash/fnv.New64a": true, "os.Getuid": true, "os.Getgid": true,
	"(*net/url.URL).Query": true, "(net/url.Values).Get": true, "net.Listen": true,
}

// envResult binds an arbitrary value of the call's result type; error components fork.
func (ex *Exec) envResult(st *State, in *ssa.Call, why string) {
	errT := types.Universe.Lookup("error").Type()
	mk := func(s *State, t types.Type) Value { return ex.freshValue(s, t, why, 0) }
	if tup, ok := in.Type().(*types.Tuple); ok {
		hasErr := -1
		for i := 0; i < tup.Len(); i++ {
			if types.Identical(tup.At(i).Type(), errT) {
				hasErr = i
			}
		}
		if hasErr >= 0 {
			// failure: zero results + error
			o := st.clone()
			tv := make(TupleV, tup.Len())
			for i := range tv {
				tv[i] = zeroValue(tup.At(i).Type())
			}
			tv[hasErr] = errVal("env:" + why)
			o.top().env[in] = tv
			ex.work = append(ex.work, o)
		}
		tv := make(TupleV, tup.Len())
		for i := range tv {
			if i == hasErr {
				tv[i] = IfaceV{}
			} else {
				tv[i] = mk(st, tup.At(i).Type())
			}
		}
		st.top().env[in] = tv
		return
	}
	if types.Identical(in.Type(), errT) {
		o := st.clone()
		o.top().env[in] = errVal("env:" + why)
		ex.work = append(ex.work, o)
		st.top().env[in] = IfaceV{}
		return
	}
	st.top().env[in] = mk(st, in.Type())
}

// freshValue: an arbitrary value of type t: scalars and strings symbolic, pointers non-nil to a
// fresh value, maps empty but non-nil, interfaces opaque environment objects, slices nil.
func (ex *Exec) freshValue(st *State, t types.Type, why string, depth int) Value {
	if w, ok := isScalarType(t); ok {
		if w == 0 {
			return ex.freshVar("env", BoolSort)
		}
		return ex.freshVar("env", BV(w))
	}
	switch u := t.Underlying().(type) {
	case *types.Basic:
		if u.Info()&types.IsString != 0 {
			ex.fresh++
			nm := fmt.Sprintf("env.str!%d", ex.fresh)
			n := ex.namedVar(nm+".len", BV(64))
			st.pc = append(st.pc, Ule(n, Const(64, 4)))
			return StringV{Sym: true, Arr: AVar(nm, 8), Len: n, Max: 4, U: False} // formatting done by the environment: not attacker text
		}
	case *types.Pointer:
		if depth > 3 {
			return PtrV{}
		}
		id := ex.newObj(st, ex.freshValue(st, u.Elem(), why, depth+1))
		st.heap[id].T = u.Elem()
		return PtrV{Obj: id}
	case *types.Struct:
		f := make([]Value, u.NumFields())
		for i := range f {
			f[i] = ex.freshValue(st, u.Field(i).Type(), why, depth+1)
		}
		return StructV{f}
	case *types.Map:
		return MapV{ex.newObj(st, CellsV{})}
	case *types.Interface:
		return IfaceV{T: t, V: OpaqueV{"env:" + why, 0}}
	}
	return zeroValue(t)
}

// havocResult binds the result of a cut / unmodelled call: scalars are fresh, every
// error-typed component forks into nil and non-nil.
func (ex *Exec) havocResult(st *State, in *ssa.Call, why string) {
	errT := types.Universe.Lookup("error").Type()
	v := ex.havoc(st, in.Type(), why)
	st.top().env[in] = v
	if types.Identical(in.Type(), errT) {
		o := st.clone()
		o.top().env[in] = IfaceV{}
		ex.work = append(ex.work, o)
		return
	}
	if tv, ok := v.(TupleV); ok {
		tup := in.Type().(*types.Tuple)
		states := []*State{st}
		for i := 0; i < tup.Len(); i++ {
			if !types.Identical(tup.At(i).Type(), errT) {
				continue
			}
			var more []*State
			for _, s := range states {
				o := s.clone()
				cur := append(TupleV(nil), o.top().env[in].(TupleV)...)
				cur[i] = IfaceV{}
				o.top().env[in] = cur
				more = append(more, o)
			}
			states = append(states, more...)
		}
		_ = tv
		for _, s := range states[1:] {
			ex.work = append(ex.work, s)
		}
	}
}

func (ex *Exec) havoc(st *State, t types.Type, why string) Value {
	if w, ok := isScalarType(t); ok {
		if w == 0 {
			return ex.freshVar("havoc", BoolSort)
		}
		return ex.freshVar("havoc", BV(w))
	}
	switch u := t.Underlying().(type) {
	case *types.Tuple:
		tv := make(TupleV, u.Len())
		for i := range tv {
			tv[i] = ex.havoc(st, u.At(i).Type(), why)
		}
		return tv
	case *types.Interface:
		// nil or opaque non-nil: choose by fresh bool is not expressible as a value; return opaque non-nil
		return IfaceV{T: t, V: OpaqueV{"havoc:" + why, ex.nextObj}}
	case *types.Basic:
		if u.Info()&types.IsString != 0 {
			// an arbitrary (bounded) string, not ""
			ex.fresh++
			nm := fmt.Sprintf("havoc.str!%d", ex.fresh)
			n := ex.namedVar(nm+".len", BV(64))
			st.pc = append(st.pc, Ule(n, Const(64, 12)))
			return StringV{Sym: true, Arr: AVar(nm, 8), Len: n, Max: 12, U: False}
		}
	}
	return zeroValue(t)
}

func (ex *Exec) builtin(st *State, b *ssa.Builtin, args []Value, in *ssa.Call, pos token.Pos) bool {
	fr := st.top()
	switch b.Name() {
	case "recover":
		// a panic ends the path in this executor, so deferred code never runs with one in flight
		fr.env[in] = IfaceV{}
	case "min", "max":
		// integer operands only
		r := args[0].(*Term)
		signed := isSigned(in.Call.Args[0].Type())
		for _, a := range args[1:] {
			t := a.(*Term)
			var less *Term
			if signed {
				less = Slt(t, r)
			} else {
				less = Ult(t, r)
			}
			if b.Name() == "max" {
				less = Not(Or(less, Eq(t, r)))
			}
			r = Ite(less, t, r)
		}
		fr.env[in] = r
	case "len":
		switch x := args[0].(type) {
		case SliceV:
			fr.env[in] = x.Len
		case StringV:
			if x.Sym {
				fr.env[in] = x.Len
			} else {
				fr.env[in] = Const(64, uint64(len(x.S)))
			}
		case ChanV:
			if x.Obj == 0 {
				fr.env[in] = Const(64, 0)
			} else {
				fr.env[in] = Const(64, uint64(len(st.heap[x.Obj].Val.(ChanState).Q)))
			}
		case MapV:
			if x.Obj == 0 {
				fr.env[in] = Const(64, 0)
			} else {
				fr.env[in] = Const(64, uint64(len(st.heap[x.Obj].Val.(CellsV).C)/2))
			}
		default:
			panic(fmt.Sprintf("len of %T", x))
		}
	case "cap":
		switch x := args[0].(type) {
		case SliceV:
			fr.env[in] = x.Cap
		case ChanV:
			fr.env[in] = Const(64, uint64(st.heap[x.Obj].Val.(ChanState).Cap))
		}
	case "copy":
		dst := args[0].(SliceV)
		var n *Term
		switch src := args[1].(type) {
		case SliceV:
			n = Ite(Ult(dst.Len, src.Len), dst.Len, src.Len)
			if dst.Obj != 0 && src.Obj != 0 {
				da, ok1 := ex.sliceArr(st, dst)
				sa, ok2 := ex.sliceArr(st, src)
				if !ok1 || !ok2 {
					dc, okd := st.heap[dst.Obj].Val.(CellsV)
					sc, oks := st.heap[src.Obj].Val.(CellsV)
					if !okd || !oks {
						panic("copy of non-scalar slices (lazy)")
					}
					if !dst.Off.IsConst() || !dst.Len.IsConst() || !src.Off.IsConst() || !src.Len.IsConst() {
						if in != nil && ex.needConcrete(st, []ssa.Value{in.Call.Args[0], in.Call.Args[1]}, cellsBound(st, dst, src)) {
							return false
						}
						panic("symbolic copy of non-scalar slices")
					}
					k := dst.Len.Val
					if src.Len.Val < k {
						k = src.Len.Val
					}
					nc := append([]Value(nil), dc.C...)
					tmp := append([]Value(nil), sc.C[src.Off.Val:src.Off.Val+k]...)
					copy(nc[dst.Off.Val:], tmp)
					st.heap[dst.Obj] = &Obj{Val: CellsV{nc}}
					if in != nil {
						fr.env[in] = Const(64, k)
					}
					return true
				}
				if st.heap[dst.Obj].Freed || st.heap[src.Obj].Freed {
					ex.finish(st, "panic", "use after free (copy)", pos)
					return false
				}
				st.heap[dst.Obj] = &Obj{Val: ArrV{ACopy(da.A, dst.Off, sa.A, src.Off, n), da.N, da.ElW}}
			} else {
				n = Const(64, 0)
			}
		default:
			panic(fmt.Sprintf("copy from %T", src))
		}
		if in != nil {
			fr.env[in] = n
		}
	case "close":
		ch := args[0].(ChanV)
		if ch.Obj == 0 {
			ex.finish(st, "panic", "close of nil channel", pos)
			return false
		}
		cs := st.heap[ch.Obj].Val.(ChanState)
		if cs.Closed {
			ex.finish(st, "panic", "close of closed channel", pos)
			return false
		}
		cs.Closed = true
		st.heap[ch.Obj] = &Obj{Val: cs}
		ex.wake(st)
	case "delete":
		m := args[0].(MapV)
		if m.Obj != 0 {
			c := st.heap[m.Obj].Val.(CellsV).C
			var nc []Value
			for i := 0; i < len(c); i += 2 {
				if !ex.valEq(c[i], args[1]).IsTrue() {
					nc = append(nc, c[i], c[i+1])
				}
			}
			st.heap[m.Obj] = &Obj{Val: CellsV{nc}}
		}
	case "clear":
		// clear(slice): zero the elements
		s := args[0].(SliceV)
		if s.Obj != 0 {
			switch a := st.heap[s.Obj].Val.(type) {
			case CellsV:
				if !s.Off.IsConst() || !s.Len.IsConst() {
					if in != nil && ex.needConcrete(st, []ssa.Value{in.Call.Args[0]}, cellsBound(st, s)) {
						return false
					}
					panic("symbolic clear of non-scalar slice")
				}
				c := append([]Value(nil), a.C...)
				et := b.Type().(*types.Signature).Params().At(0).Type().Underlying().(*types.Slice).Elem()
				for i := s.Off.Val; i < s.Off.Val+s.Len.Val; i++ {
					c[i] = zeroValue(et)
				}
				st.heap[s.Obj] = &Obj{Val: CellsV{c}}
			case ArrV:
				st.heap[s.Obj] = &Obj{Val: ArrV{ACopy(a.A, s.Off, AConst(a.ElW, 0), Const(64, 0), s.Len), a.N, a.ElW}}
			}
		}
	case "append":
		s := args[0].(SliceV)
		if sv, isStr := args[1].(StringV); isStr {
			// append([]byte, string...)
			args[1] = ex.stringBytes(st, sv)
		}
		t := args[1].(SliceV)
		et := in.Type().Underlying().(*types.Slice).Elem()
		w, scalar := isScalarType(et)
		if t.Obj == 0 || (t.Len.IsConst() && t.Len.Val == 0) {
			fr.env[in] = s
			return true
		}
		newLen := Add(s.Len, t.Len)
		if scalar && w > 0 {
			ta, _ := ex.sliceArr(st, t)
			fits, grow := ex.fork(st, Ule(newLen, s.Cap))
			if grow != nil {
				// new backing store
				gfr := grow.top()
				var base *Term = AConst(w, 0)
				if s.Obj != 0 {
					sa, _ := ex.sliceArr(grow, s)
					base = ACopy(base, Const(64, 0), sa.A, s.Off, s.Len)
				}
				arr := ACopy(base, s.Len, ta.A, t.Off, t.Len)
				ex.noteAlloc(grow, Mul(newLen, Const(64, uint64(w/8))), pos)
				gfr.env[in] = SliceV{ex.newObj(grow, ArrV{arr, -1, w}), Const(64, 0), newLen, newLen}
				if fits != nil {
					ex.work = append(ex.work, grow)
				}
			}
			if fits != nil && s.Obj == 0 {
				// appending nothing to a nil slice
				fits.top().env[in] = s
				return fits == st
			}
			if fits != nil {
				ffr := fits.top()
				sa, _ := ex.sliceArr(fits, s)
				fits.heap[s.Obj] = &Obj{Val: ArrV{ACopy(sa.A, Add(s.Off, s.Len), ta.A, t.Off, t.Len), sa.N, sa.ElW}}
				ffr.env[in] = SliceV{s.Obj, s.Off, newLen, s.Cap}
				return fits == st
			}
			if grow != nil {
				return grow == st
			}
			return false
		}
		// cells: concrete
		if !s.Len.IsConst() || !t.Len.IsConst() || !s.Off.IsConst() || !t.Off.IsConst() || (s.Obj != 0 && !s.Cap.IsConst()) {
			if in != nil && ex.needConcrete(st, []ssa.Value{in.Call.Args[0], in.Call.Args[1]}, cellsBound(st, s, t)) {
				return false
			}
			panic("symbolic append of non-scalar slice")
		}
		if s.Obj != 0 && s.Cap.IsConst() && s.Len.Val+t.Len.Val <= s.Cap.Val {
			if sc, ok := st.heap[s.Obj].Val.(CellsV); ok {
				c := append([]Value(nil), sc.C...)
				tc := st.heap[t.Obj].Val.(CellsV).C
				src := append([]Value(nil), tc[t.Off.Val:t.Off.Val+t.Len.Val]...)
				copy(c[s.Off.Val+s.Len.Val:], src)
				st.heap[s.Obj] = &Obj{Val: CellsV{c}}
				fr.env[in] = SliceV{s.Obj, s.Off, Const(64, s.Len.Val+t.Len.Val), s.Cap}
				return true
			}
		}
		var cells []Value
		if s.Obj != 0 && s.Len.Val > 0 {
			sc := st.heap[s.Obj].Val.(CellsV).C
			cells = append(cells, sc[s.Off.Val:s.Off.Val+s.Len.Val]...)
		}
		tc := st.heap[t.Obj].Val.(CellsV).C
		cells = append(cells, tc[t.Off.Val:t.Off.Val+t.Len.Val]...)
		n := Const(64, uint64(len(cells)))
		fr.env[in] = SliceV{ex.newObj(st, CellsV{cells}), Const(64, 0), n, n}
	default:
		panic("builtin " + b.Name())
	}
	return true
}

func sortedKeys(m map[string]bool) []string {
	var ks []string
	for k := range m {
		ks = append(ks, k)
	}
	sort.Strings(ks)
	return ks
}

// ---------- scheduling ----------
var visibleOps = map[string]string{
	"(*sync.RWMutex).Lock": "lock", "(*sync.RWMutex).Unlock": "unlock", "(*sync.RWMutex).RLock": "rlock", "(*sync.RWMutex).RUnlock": "runlock",
	"(*sync.Mutex).Lock": "lock", "(*sync.Mutex).Unlock": "unlock",
	"sync/atomic.LoadUint32": "atomic", "sync/atomic.StoreUint32": "atomic", "sync/atomic.CompareAndSwapUint32": "atomic",
	"sync/atomic.AddInt64": "atomic", "sync/atomic.LoadInt64": "atomic",
	"crypto/sha1.Sum": "long", "time.Sleep": "sleep",
	"(*sync.WaitGroup).Wait": "wgwait", "(*sync.WaitGroup).Done": "atomic",
}

func (ex *Exec) visible(instr ssa.Instruction) string {
	var cc *ssa.CallCommon
	switch in := instr.(type) {
	case *ssa.Send:
		return "chan"
	case *ssa.Select:
		return "chan"
	case *ssa.UnOp:
		if in.Op == token.ARROW {
			return "chan"
		}
		return ""
	case *ssa.Call:
		cc = &in.Call
	case *ssa.Defer:
		return ""
	default:
		return ""
	}
	if f := cc.StaticCallee(); f != nil {
		if k, ok := visibleOps[f.String()]; ok {
			return k
		}
		if f.Name() == "vJoin" {
			return "join"
		}
	}
	return ""
}

func ptrKey(p PtrV) string {
	s := fmt.Sprintf("%d", p.Obj)
	for _, pe := range p.Path {
		if pe.Field >= 0 {
			s += fmt.Sprintf(".%d", pe.Field)
		} else {
			s += fmt.Sprintf("[%d]", pe.Idx.id)
		}
	}
	return s
}

func (ex *Exec) wake(st *State) {
	for i, t := range st.threads {
		if i != st.cur {
			t.sleeping = false
		}
	}
}

// enabled reports whether thread t (with frames fs) can perform its pending visible op
func (ex *Exec) enabled(st *State, t int, fs []*Frame) bool {
	th := st.threads[t]
	if th.done || th.sleeping {
		return false
	}
	if len(fs) == 0 {
		return true
	}
	fr := fs[len(fs)-1]
	instr := fr.block.Instrs[fr.ip]
	kind := ex.visible(instr)
	switch kind {
	case "lock", "rlock":
		call := instr.(*ssa.Call)
		saved := st.frames
		st.frames = fs
		p := ex.get(st, call.Call.Args[0]).(PtrV)
		st.frames = saved
		m := st.mus[ptrKey(p)]
		if kind == "lock" {
			return m.writer == 0 && m.readers == 0
		}
		return m.writer == 0
	case "chan":
		saved := st.frames
		st.frames = fs
		defer func() { st.frames = saved }()
		ready := func(chv Value, send bool) bool {
			ch := chv.(ChanV)
			if ch.Obj == 0 {
				return false
			}
			cs := st.heap[ch.Obj].Val.(ChanState)
			if cs.Env {
				return true
			}
			if send {
				return cs.Closed || len(cs.Q) < cs.Cap || ex.rendezvous(st, t, ch.Obj)
			}
			return len(cs.Q) > 0 || cs.Closed
		}
		switch in := instr.(type) {
		case *ssa.Send:
			return ready(ex.get(st, in.Chan), true)
		case *ssa.UnOp:
			return ready(ex.get(st, in.X), false)
		case *ssa.Select:
			if !in.Blocking {
				return true
			}
			for _, s := range in.States {
				if ready(ex.get(st, s.Chan), s.Dir == types.SendOnly) {
					return true
				}
			}
			return false
		}
	case "wgwait":
		call := instr.(*ssa.Call)
		saved := st.frames
		st.frames = fs
		p := ex.get(st, call.Call.Args[0]).(PtrV)
		st.frames = saved
		return st.wgs[ptrKey(p)] <= 0
	case "join":
		for i, o := range st.threads {
			if i != t && !o.done {
				return false
			}
		}
	}
	return true
}


func (ex *Exec) schedule(st *State, curRunnable bool) {
	st.threads[st.cur].frames = st.frames
	curEnabled := curRunnable && ex.enabled(st, st.cur, st.frames)
	any := false
	alive := false
	for t, th := range st.threads {
		if !th.done {
			alive = true
		}
		if !ex.enabled(st, t, th.frames) {
			continue
		}
		cost := 0
		if t != st.cur && curEnabled {
			cost = 1
		}
		if st.preempt+cost > ex.cfg.Preempt {
			continue
		}
		any = true
		n := st.clone()
		n.threads[st.cur].frames = cloneFrames(st.frames)
		n.cur = t
		n.frames = n.threads[t].frames
		if t == st.cur {
			n.frames = n.threads[t].frames
		}
		n.granted = true
		n.preempt += cost
		n.sched = append(n.sched, t)
		ex.work = append(ex.work, n)
	}
	if !any && alive {
		// time passes: wake sleepers and retry once
		woke := false
		for _, th := range st.threads {
			if th.sleeping && !th.done {
				th.sleeping = false
				woke = true
			}
		}
		if woke {
			ex.schedule(st, curRunnable)
			return
		}
		ex.finish(st, "blocked", "no goroutine can proceed (deadlock / a call that never returns)", token.NoPos)
	}
}

func (ex *Exec) runInits(st *State, pkg *ssa.Package) {
	if pkg == nil || ex.initDone[pkg] || !strings.HasPrefix(pkg.Pkg.Path(), "github.com/jech/storrent") {
		return
	}
	ex.initDone[pkg] = true
	for _, imp := range pkg.Pkg.Imports() {
		ex.runInits(st, ex.prog.Package(imp))
	}
	initFn := pkg.Func("init")
	if initFn == nil || initFn.Blocks == nil {
		return
	}
	saved := st.frames
	st.frames = []*Frame{{fn: initFn, env: map[ssa.Value]Value{}, block: initFn.Blocks[0], visits: map[int]int{}}}
	ex.inInit = true
	savedWork := ex.work
	ex.work = nil
	// run to completion on this single state
	for len(st.frames) > 0 {
		fr := st.top()
		instr := fr.block.Instrs[fr.ip]
		fr.ip++
		if !ex.step(st, fr, instr) {
			break
		}
	}
	if len(ex.work) > 0 {
		fmt.Println("warning: init of", pkg.Pkg.Path(), "forked")
	}
	ex.work = savedWork
	ex.inInit = false
	st.frames = saved
	st.pc = nil
	st.imprecise = false
	st.stubbed = false
}

// rendezvous: an unbuffered send is possible if some other thread is parked at a receive on that channel.
// prototype: unbuffered channels are modelled with capacity 1 ("handed over"), so this is never needed.
func (ex *Exec) rendezvous(st *State, t int, obj int) bool { return false }

func (ex *Exec) selectHasEnv(st *State, in *ssa.Select) bool {
	for _, s := range in.States {
		ch := ex.get(st, s.Chan).(ChanV)
		if ch.Obj != 0 && st.heap[ch.Obj].Val.(ChanState).Env {
			return true
		}
	}
	return false
}

// selectReady counts the communication cases of a select that can proceed now.
func (ex *Exec) selectReady(st *State, in *ssa.Select) int {
	n := 0
	for _, s := range in.States {
		ch := ex.get(st, s.Chan).(ChanV)
		if ch.Obj == 0 {
			continue
		}
		cs := st.heap[ch.Obj].Val.(ChanState)
		if s.Dir == types.SendOnly {
			if cs.Closed || len(cs.Q) < cs.Cap || cs.Env {
				n++
			}
		} else if len(cs.Q) > 0 || cs.Closed || cs.Env {
			n++
		}
	}
	return n
}

func (ex *Exec) selectFork(st *State, fr *Frame, in *ssa.Select) bool {
	pos := in.Pos()
	type choice struct{ idx int }
	var ready []int
	for i, s := range in.States {
		ch := ex.get(st, s.Chan).(ChanV)
		if ch.Obj == 0 {
			continue
		}
		cs := st.heap[ch.Obj].Val.(ChanState)
		if s.Dir == types.SendOnly {
			if cs.Closed || len(cs.Q) < cs.Cap || cs.Env {
				ready = append(ready, i)
			}
		} else if len(cs.Q) > 0 || cs.Closed || cs.Env {
			ready = append(ready, i)
		}
	}
	if !in.Blocking {
		// default is taken only when no communication can proceed; an environment channel
		// "may or may not" be ready, so default stays possible next to it
		sure := false
		for _, i := range ready {
			ch := ex.get(st, in.States[i].Chan).(ChanV)
			if !st.heap[ch.Obj].Val.(ChanState).Env {
				sure = true
			}
		}
		if !sure {
			ready = append(ready, -1)
		}
	}
	if len(ready) == 0 {
		panic("select granted with no ready case")
	}
	tup := in.Type().(*types.Tuple)
	for n, idx := range ready {
		s2 := st
		if n < len(ready)-1 {
			s2 = st.clone()
		}
		f2 := s2.top()
		res := make(TupleV, tup.Len())
		res[0] = Const(64, uint64(int64(idx)))
		res[1] = False
		k := 2
		for i, s := range in.States {
			if s.Dir == types.RecvOnly {
				res[k] = zeroValue(tup.At(k).Type())
				if i == idx {
					ch := ex.get(s2, s.Chan).(ChanV)
					cs := s2.heap[ch.Obj].Val.(ChanState)
					if len(cs.Q) > 0 {
						res[k] = cs.Q[0]
						res[1] = True
						cs.Q = append([]Value(nil), cs.Q[1:]...)
						s2.heap[ch.Obj] = &Obj{Val: cs}
					} else if cs.Env {
						res[1] = True
						if cs.Budget > 0 {
							cs.Budget--
							cs.Env = cs.Budget > 0
							s2.heap[ch.Obj] = &Obj{Val: cs}
						}
					}
				}
				k++
			} else if i == idx {
				ch := ex.get(s2, s.Chan).(ChanV)
				cs := s2.heap[ch.Obj].Val.(ChanState)
				if cs.Closed {
					ex.finish(s2, "panic", "send on closed channel", pos)
					continue
				}
				if !cs.Env {
					cs.Q = append(append([]Value(nil), cs.Q...), ex.get(s2, s.Send))
					s2.heap[ch.Obj] = &Obj{Val: cs}
				}
			}
		}
		f2.env[in] = res
		ex.wake(s2)
		if s2 != st {
			ex.work = append(ex.work, s2)
		}
	}
	return true
}

func strLenT(s StringV) *Term {
	if s.Sym {
		return s.Len
	}
	return Const(64, uint64(len(s.S)))
}
func strAt(s StringV, i int) *Term {
	if s.Sym {
		return Select(s.Arr, Const(64, uint64(i)))
	}
	if i < len(s.S) {
		return Const(8, uint64(s.S[i]))
	}
	return Const(8, 0)
}
func strMax(s StringV) int {
	if s.Sym {
		return s.Max
	}
	return len(s.S)
}
func strEq(a, b StringV) *Term {
	n := strMax(a)
	if strMax(b) < n {
		n = strMax(b)
	}
	c := Eq(strLenT(a), strLenT(b))
	for i := 0; i < n; i++ {
		in := Ult(Const(64, uint64(i)), strLenT(a))
		c = And(c, Or(Not(in), Eq(strAt(a, i), strAt(b, i))))
	}
	return c
}

// lexicographic a < b over bounded strings
func strLess(a, b StringV) *Term {
	n := strMax(a)
	if strMax(b) > n {
		n = strMax(b)
	}
	// build from the end: less_i = (i>=la && i<lb) || (i<la && i<lb && (a[i]<b[i] || (a[i]==b[i] && less_{i+1})))
	var less *Term = False
	for i := n; i >= 0; i-- {
		it := Const(64, uint64(i))
		ina, inb := Ult(it, strLenT(a)), Ult(it, strLenT(b))
		less = Or(And(Not(ina), inb), And(ina, inb, Or(Ult(strAt(a, i), strAt(b, i)), And(Eq(strAt(a, i), strAt(b, i)), less))))
	}
	return less
}

