package main

import (
	"fmt"
	"os"
	"os/exec"
	"strings"
)

// selftestMain checks that the three solvers answer a bit-vector query the same way and
// that the engine's own pipe protocol works. Run by setup_cmd.
func selftestMain() int {
	q := "(declare-const x (_ BitVec 32))\n(assert (= (bvmul x #x00000003) #x00000009))\n(assert (bvult x #x00000010))\n(check-sat)\n"
	bad := 0
	for _, s := range [][]string{{"z3-new", "-in"}, {"z3", "-in"}, {"cvc5", "--lang=smt2"}} {
		cmd := exec.Command(s[0], s[1:]...)
		cmd.Stdin = strings.NewReader(q)
		out, err := cmd.CombinedOutput()
		ans := ""
		for _, l := range strings.Split(string(out), "\n") {
			if strings.TrimSpace(l) == "sat" || strings.TrimSpace(l) == "unsat" {
				ans = strings.TrimSpace(l)
			}
		}
		fmt.Printf("selftest: %s -> %q (err=%v)\n", s[0], ans, err)
		if ans != "sat" {
			bad++
		}
	}
	sv := NewSolver(5000, nil)
	x := Var("x", BV(8))
	r1, _ := sv.Check([]*Term{Eq(Add(x, Const(8, 1)), Const(8, 0))}, nil, nil)
	r2, vals := sv.Check([]*Term{Eq(Add(x, Const(8, 1)), Const(8, 0))}, Ult(x, Const(8, 255)), nil)
	r3, vals := sv.Check([]*Term{Eq(Add(x, Const(8, 1)), Const(8, 0))}, nil, []*Term{x})
	sv.Close()
	fmt.Printf("selftest: engine pipe -> %s %s %s %v\n", r1, r2, r3, vals)
	if r1 != "sat" || r2 != "unsat" || r3 != "sat" || len(vals) != 1 || vals[0] != 255 {
		bad++
	}
	// end to end: load /repo with the harness overlay and decide one small harness
	if prog, err := loadProgram([]string{"./path", "./zz_verif_model"}); err != nil {
		fmt.Println("selftest: loading /repo failed:", err)
		bad++
	} else {
		os.Setenv("GOSYM_NOCROSS", "1")
		res := runHarness(prog, HarnessCfg{Pkg: "path", Func: "H_C20_path_spec", Loop: 12})
		fmt.Printf("selftest: path.H_C20_path_spec -> paths=%d queries=%d outcomes=%d error=%q\n", res.Paths, res.Queries, len(res.Outcomes), res.Error)
		if res.Error != "" || len(res.Outcomes) != 0 || res.Paths == 0 {
			bad++
		}
		os.Unsetenv("GOSYM_NOCROSS")
	}
	if bad > 0 {
		fmt.Println("selftest FAILED")
		return 2
	}
	fmt.Println("selftest ok")
	return 0
}
