package main

import (
	"fmt"
	"os"
	"path/filepath"
	"sort"
	"strings"

	"golang.org/x/tools/go/packages"
	"golang.org/x/tools/go/ssa"
	"golang.org/x/tools/go/ssa/ssautil"
)

// repoDir: the tree under analysis. Registered checks always use /repo; GOSYM_REPO lets the
// machinery itself be tried against a scratch copy while /repo is busy.
var repoDir = func() string {
	if d := os.Getenv("GOSYM_REPO"); d != "" {
		return d
	}
	return "/repo"
}()
const modPath = "github.com/jech/storrent"

var verifDir = func() string {
	if d := os.Getenv("VERIF_DIR"); d != "" {
		return d
	}
	return "/verif"
}()

// enginePrelude is the per-package declaration of the harness primitives. Under the
// engine every call is intercepted by name; the bodies are never executed.
const enginePrelude = `//go:build verif

package %s

import (
	"context"
	"crypto/rc4"
)

var _ = rc4.NewCipher

func vLiveContext() context.Context      { return nil }
func vU8(name string) uint8              { return 0 }
func vU16(name string) uint16            { return 0 }
func vU32(name string) uint32            { return 0 }
func vU64(name string) uint64            { return 0 }
func vI64(name string) int64             { return 0 }
func vInt(name string) int               { return 0 }
func vBool(name string) bool             { return false }
func vBytes(name string, max int) []byte { return nil }
func vString(name string, max int) string { return "" }
func vAssume(c bool)                     {}
func vAssert(c bool, msg string)         {}
func vReach(label string)                {}
func vParam(name string) int             { return 0 }
func vChoose(name string, lo, hi int) int { return lo }
func vFreshInt(name string) int          { return 0 }
func vEnvChan() chan struct{}            { return nil }
func vJoin()                             {}
func vMaxAlloc() int                     { return 0 }
func vAllocMark()                        {}
func vStreamPos() int                    { return 0 }
func vEffects() int                      { return 0 }
func vEffect(kind string) int            { return 0 }
func vNow() int64                        { return 0 }
func vSha1Eq(a []byte, b []byte) bool    { return false }
func vFreed(b []byte) bool               { return false }
func vLive(b []byte) bool                { return true }
func vDeadlocked() bool                  { return false }
func vNondetErr(name string) error       { return nil }
func vHavocBytes(b []byte, name string)  {}
func vBencode(v interface{}) []byte      { return nil }
func vUnsafeClass(k int)                 {}
func vTickers(mask, budget int)          {}
func vCipherPos(c *rc4.Cipher) int       { return 0 }
func vOutUnsafe() bool                   { return false }
func vLastEncoded() interface{}          { return nil }
func vAnd(a, b bool) bool                { return a && b }
func vOr(a, b bool) bool                 { return a || b }
func vImp(a, b bool) bool                { return !a || b }
func vIte(c bool, a, b int) int          { if c { return a }; return b }
`

var primNames = map[string]bool{}

func init() {
	for _, l := range strings.Split(enginePrelude, "\n") {
		if strings.HasPrefix(l, "func v") {
			n := l[5:strings.Index(l, "(")]
			primNames[n] = true
		}
	}
}

// harnessOverlay maps every file under /verif/harness/<pkgdir>/ to a virtual add-only
// file /repo/<pkgdir>/zz_verif_<name>, plus the prelude for each package that has one.
// native=false: engine prelude. native=true: files for `go test -overlay` (written to dir).
func harnessFiles() (map[string][]string, error) {
	root := filepath.Join(verifDir, "harness")
	out := map[string][]string{}
	err := filepath.Walk(root, func(p string, info os.FileInfo, err error) error {
		if err != nil {
			return err
		}
		if info.IsDir() || !strings.HasSuffix(p, ".go") {
			return nil
		}
		rel, _ := filepath.Rel(root, filepath.Dir(p))
		out[rel] = append(out[rel], p)
		return nil
	})
	for _, v := range out {
		sort.Strings(v)
	}
	return out, err
}

func pkgNameOf(dir string) string {
	if dir == "." {
		return "main"
	}
	return filepath.Base(dir)
}

func engineOverlay() (map[string][]byte, error) {
	hf, err := harnessFiles()
	if err != nil {
		return nil, err
	}
	ov := map[string][]byte{}
	for dir, files := range hf {
		for _, f := range files {
			b, err := os.ReadFile(f)
			if err != nil {
				return nil, err
			}
			if strings.HasSuffix(f, "_native.go") {
				continue // native-only helper (replay side)
			}
			ov[filepath.Join(repoDir, dir, "zz_verif_"+filepath.Base(f))] = b
		}
		if dir != "zz_verif_model" {
			ov[filepath.Join(repoDir, dir, "zz_verif_prelude.go")] = []byte(fmt.Sprintf(enginePrelude, pkgNameOf(dir)))
		}
	}
	return ov, nil
}

func loadProgram(patterns []string) (*ssa.Program, error) {
	ov, err := engineOverlay()
	if err != nil {
		return nil, err
	}
	cfg := &packages.Config{Mode: packages.LoadAllSyntax, Dir: repoDir, Overlay: ov,
		BuildFlags: []string{"-tags=verif"},
		Env:        append(os.Environ(), "CGO_ENABLED=0", "GOFLAGS=-mod=mod", "GOPROXY=off", "GOSUMDB=off", "GOTOOLCHAIN=local")}
	pkgs, err := packages.Load(cfg, patterns...)
	if err != nil {
		return nil, err
	}
	n := 0
	var sb strings.Builder
	packages.Visit(pkgs, nil, func(p *packages.Package) {
		for _, e := range p.Errors {
			n++
			if n <= 30 {
				fmt.Fprintf(&sb, "%s\n", e)
			}
		}
	})
	if n > 0 {
		return nil, fmt.Errorf("harness/tree does not type-check (%d errors):\n%s", n, sb.String())
	}
	prog, _ := ssautil.AllPackages(pkgs, ssa.InstantiateGenerics)
	prog.Build()
	return prog, nil
}

func findFunc(prog *ssa.Program, pkgDir, name string) *ssa.Function {
	path := modPath
	if pkgDir != "." && pkgDir != "" {
		path = modPath + "/" + pkgDir
	}
	for _, p := range prog.AllPackages() {
		if p.Pkg.Path() == path {
			return p.Func(name)
		}
	}
	return nil
}
