package main

import (
	"net/url"
	"fmt"
	"go/token"
	"go/types"
	"strings"

	"golang.org/x/tools/go/ssa"
)

type intrinsic func(ex *Exec, st *State, args []Value, in *ssa.Call, pos token.Pos) bool

var intrinsics map[string]intrinsic

type DecoderV struct {
	R      int // reader object
	Parsed *Term
}

func isHarnessPrim(fn *ssa.Function) bool {
	if fn.Pkg == nil || !primNames[fn.Name()] {
		return false
	}
	p := fn.Prog.Fset.Position(fn.Pos())
	return strings.Contains(p.Filename, "zz_verif_prelude")
}

func setRes(st *State, in *ssa.Call, v Value) {
	if in != nil {
		st.top().env[in] = v
	}
}

func (ex *Exec) pinned(st *State, v *Term) {
	if ex.cfg.Pin == nil {
		return
	}
	if val, ok := ex.cfg.Pin.Scalars[v.Name]; ok {
		if v.S.K == SBool {
			st.pc = append(st.pc, Eq(v, BoolC(val != 0)))
		} else {
			st.pc = append(st.pc, Eq(v, Const(v.S.W, val)))
		}
	}
}

func (ex *Exec) harnessPrim(st *State, fn *ssa.Function, args []Value, in *ssa.Call, pos token.Pos) bool {
	name := func() string { return args[0].(StringV).S }
	scalar := func(s Sort) {
		v := ex.namedVar(name(), s)
		ex.pinned(st, v)
		setRes(st, in, v)
	}
	switch fn.Name() {
	case "vU8":
		scalar(BV(8))
	case "vU16":
		scalar(BV(16))
	case "vU32":
		scalar(BV(32))
	case "vU64", "vInt", "vI64":
		scalar(BV(64))
	case "vBool":
		scalar(BoolSort)
	case "vBytes", "vString":
		mx := args[1].(*Term)
		n := ex.namedVar(name()+".len", BV(64))
		st.pc = append(st.pc, Ule(n, mx))
		ex.pinned(st, n)
		arr := AVar(name(), 8)
		if ex.cfg.Pin != nil {
			for i, v := range ex.cfg.Pin.Arrays[name()] {
				st.pc = append(st.pc, Eq(Select(arr, Const(64, i)), Const(8, v)))
			}
		}
		if fn.Name() == "vString" {
			setRes(st, in, StringV{Sym: true, Arr: arr, Len: n, Max: int(mx.Val)})
		} else {
			setRes(st, in, SliceV{ex.newObj(st, ArrV{arr, -1, 8}), Const(64, 0), n, n})
		}
	case "vAssume":
		c := args[0].(*Term)
		if !ex.feasible(st, c) {
			return false
		}
		st.pc = append(st.pc, c)
	case "vAssert":
		c := args[0].(*Term)
		msg := args[1].(StringV).S
		as := ex.assertStat(msg, pos)
		as.Checked++
		if c.IsTrue() {
			return true
		}
		r, _ := ex.solver.Check(st.pc, Not(c), nil)
		if r != "sat" && r != "unsat" {
			// portfolio: integer encoding that keeps the mod-2^k semantics (good at sums of lengths)
			r = intBlast(Standalone(st.pc, Not(c)), 90)
			ex.intr["PORTFOLIO:cvc5 --solve-bv-as-int=sum"] = true
		}
		switch r {
		case "unsat":
			if as.Checked <= 1 && len(ex.vcs) < 16 {
				ex.vcs = append(ex.vcs, vcRec{Standalone(st.pc, Not(c)), "unsat", "assert: " + msg})
			}
			return true
		case "sat":
			as.Failed++
			f := st.clone()
			f.pc = append(f.pc, Not(c))
			ex.finish(f, "assert", msg, pos)
		default:
			as.Unknown++
			o := Outcome{Kind: "undecided", Msg: "assert: " + msg, Pos: ex.prog.Fset.Position(pos)}
			ex.outcomes = append(ex.outcomes, o)
		}
		if !ex.feasible(st, c) {
			return false
		}
		st.pc = append(st.pc, c)
		return true
	case "vParam":
		v, ok := ex.cfg.Params[name()]
		if !ok {
			panic("harness parameter not set: " + name())
		}
		setRes(st, in, Const(64, uint64(v)))
	case "vStreamPos":
		if st.primary == 0 {
			setRes(st, in, Const(64, 0))
		} else {
			setRes(st, in, st.heap[st.primary].Val.(StreamV).Pos)
		}
	case "vFreshInt":
		v := ex.freshVar(name(), BV(64))
		ex.pinned(st, v)
		setRes(st, in, v)
	case "vChoose":
		lo, hi := int64(args[1].(*Term).Val), int64(args[2].(*Term).Val)
		nm := name()
		seq := len(st.notes)
		if ex.cfg.Pin != nil {
			if val, ok := ex.cfg.Pin.Scalars[fmt.Sprintf("choose:%s!%d", nm, seq)]; ok {
				lo, hi = int64(val), int64(val)
			}
		}
		for v := hi; v > lo; v-- {
			o := st.clone()
			o.notes = append(o.notes, fmt.Sprintf("choose:%s=%d", nm, v))
			setRes(o, in, Const(64, uint64(v)))
			ex.work = append(ex.work, o)
		}
		st.notes = append(st.notes, fmt.Sprintf("choose:%s=%d", nm, lo))
		setRes(st, in, Const(64, uint64(lo)))
	case "vEnvChan":
		setRes(st, in, ChanV{ex.newObj(st, ChanState{Env: true})})
	case "vJoin":
		return true
	case "vReach":
		st.reached = append(st.reached, st.top().fn.Name()+":"+name())
	case "vAllocMark":
		st.allocs = nil
	case "vMaxAlloc":
		var m *Term = Const(64, 0)
		for _, a := range st.allocs {
			m = Ite(Ult(m, a), a, m)
		}
		setRes(st, in, m)
	case "vNow":
		t := ex.freshVar("now", BV(64))
		st.pc = append(st.pc, Sle(clockFloor(st), t), Slt(t, Const(64, 1<<62)))
		st.notes = append(st.notes, "clock:"+t.Name)
		setRes(st, in, t)
	case "vSha1Eq":
		a, b := args[0].(SliceV), args[1].(SliceV)
		out := ex.sha1Of(st, a)
		c := Eq(b.Len, Const(64, 20))
		if b.Obj != 0 {
			ba, _ := ex.sliceArr(st, b)
			for i := uint64(0); i < 20; i++ {
				c = And(c, Eq(Select(out, Const(64, i)), Select(ba.A, Add(b.Off, Const(64, i)))))
			}
		} else {
			c = False
		}
		setRes(st, in, c)
	case "vAnd":
		setRes(st, in, And(args[0].(*Term), args[1].(*Term)))
	case "vOr":
		setRes(st, in, Or(args[0].(*Term), args[1].(*Term)))
	case "vImp":
		setRes(st, in, Or(Not(args[0].(*Term)), args[1].(*Term)))
	case "vIte":
		setRes(st, in, Ite(args[0].(*Term), args[1].(*Term), args[2].(*Term)))
	case "vLiveContext":
		setRes(st, in, IfaceV{T: in.Type(), V: OpaqueV{"ctxlive", 0}})
	case "vCipherPos":
		// ghost: the number of keystream bytes an rc4.Cipher has produced so far
		setRes(st, in, st.heap[args[0].(PtrV).Obj].Val.(CipherV).Pos)
	case "vTickers":
		st.tickMask, st.tickBudget, st.tickSeq = int(args[0].(*Term).Val), int(args[1].(*Term).Val), 0
	case "vUnsafeClass":
		st.unsafeClass = int(args[0].(*Term).Val)
	case "vOutUnsafe":
		if st.outUnsafe == nil {
			setRes(st, in, False)
		} else {
			setRes(st, in, st.outUnsafe)
		}
	case "vBencode":
		iv := args[0].(IfaceV)
		v, ok := ex.load(st, iv.V.(PtrV), pos)
		if !ok {
			return false
		}
		st.bencNext = append(st.bencNext, bencReg{iv.T.Underlying().(*types.Pointer).Elem(), v, nil})
		n := ex.freshVar("benc.len", BV(64))
		st.pc = append(st.pc, Ule(n, Const(64, 1<<20)), Ult(Const(64, 1), n))
		setRes(st, in, SliceV{ex.newObj(st, ArrV{ex.freshArr("benc"), -1, 8}), Const(64, 0), n, n})
	case "vLastEncoded":
		if st.lastEnc == nil {
			setRes(st, in, IfaceV{})
		} else {
			setRes(st, in, st.lastEnc)
		}
	case "vFreed", "vLive":
		s := args[0].(SliceV)
		freed := s.Obj != 0 && st.heap[s.Obj].Freed
		if fn.Name() == "vLive" {
			freed = !freed
		}
		setRes(st, in, BoolC(freed))
	case "vNondetErr":
		st.stubbed = true
		o := st.clone()
		setRes(o, in, errVal("nondet:"+name()))
		ex.work = append(ex.work, o)
		setRes(st, in, nilErr)
	case "vHavocBytes":
		s := args[0].(SliceV)
		if s.Obj != 0 {
			a, _ := ex.sliceArr(st, s)
			st.heap[s.Obj] = &Obj{Val: ArrV{ACopy(a.A, s.Off, ex.freshArr(args[1].(StringV).S), Const(64, 0), s.Len), a.N, a.ElW}}
		}
	case "vEffects":
		setRes(st, in, Const(64, uint64(len(st.effects))))
	case "vEffect":
		n := 0
		for _, e := range st.effects {
			if e == name() || strings.HasPrefix(e, name()+":") {
				n++
			}
		}
		setRes(st, in, Const(64, uint64(n)))
	case "vDeadlocked":
		setRes(st, in, False)
	default:
		panic("unimplemented harness primitive " + fn.Name())
	}
	return true
}

func (ex *Exec) streamOf(st *State, v Value) (int, bool) {
	switch x := v.(type) {
	case IfaceV:
		return ex.streamOf(st, x.V)
	case PtrV:
		if x.Obj == 0 {
			return 0, false
		}
		switch st.heap[x.Obj].Val.(type) {
		case StreamV:
			return x.Obj, true
		}
		if isLimited(st.heap[x.Obj]) && len(x.Path) == 0 {
			return x.Obj, true
		}
	}
	return 0, false
}

// remaining bytes readable from reader object id
func (ex *Exec) remaining(st *State, id int) *Term {
	switch s := st.heap[id].Val.(type) {
	case StreamV:
		return Sub(s.N, s.Pos)
	case StructV:
		under, _ := ex.streamOf(st, s.F[0])
		rem := s.F[1].(*Term)
		u := ex.remaining(st, under)
		return Ite(Sle(rem, Const(64, 0)), Const(64, 0), Ite(Ult(u, rem), u, rem))
	}
	panic("remaining")
}

// consume n bytes (caller guarantees n <= remaining); returns array and absolute offset of first byte
func (ex *Exec) consume(st *State, id int, n *Term) (*Term, *Term) {
	switch s := st.heap[id].Val.(type) {
	case StreamV:
		off := Add(s.Base, s.Pos)
		ns := s
		ns.Pos = Add(s.Pos, n)
		st.heap[id] = &Obj{Val: ns}
		st.consumed = Add(st.consumed, n)
		return s.A, off
	case StructV:
		under, _ := ex.streamOf(st, s.F[0])
		st.heap[id] = &Obj{Val: StructV{[]Value{s.F[0], Sub(s.F[1].(*Term), n)}}, T: st.heap[id].T}
		return ex.consume(st, under, n)
	}
	panic("consume")
}

// stBound: the call instruction's result has been bound in st (so st may continue).
func stBound(st *State, in *ssa.Call) bool {
	if in == nil || len(st.frames) == 0 {
		return false
	}
	_, ok := st.top().env[in]
	return ok
}

// symHasSuffix: a bounded symbolic string ends with the given literal
func symHasSuffix(s StringV, suf string) *Term {
	k := Const(64, uint64(len(suf)))
	c := Ule(k, s.Len)
	for i := 0; i < len(suf); i++ {
		c = And(c, Eq(Select(s.Arr, Add(Sub(s.Len, k), Const(64, uint64(i)))), Const(8, uint64(suf[i]))))
	}
	return c
}

// trimSet: strings.TrimLeft / TrimRight / Trim of a bounded symbolic string by a literal ASCII
// cutset: byte-wise (a byte of a multi-byte rune is never in an ASCII cutset, so the rune-wise
// library function stops at the same place).
func (ex *Exec) trimSet(st *State, s StringV, cut StringV, in *ssa.Call, left, right bool) bool {
	if !s.Sym && !cut.Sym {
		switch {
		case left && right:
			setRes(st, in, StringV{S: strings.Trim(s.S, cut.S)})
		case left:
			setRes(st, in, StringV{S: strings.TrimLeft(s.S, cut.S)})
		default:
			setRes(st, in, StringV{S: strings.TrimRight(s.S, cut.S)})
		}
		return true
	}
	if cut.Sym {
		panic("strings.Trim* with a symbolic cutset")
	}
	for i := 0; i < len(cut.S); i++ {
		if cut.S[i] >= 0x80 {
			panic("strings.Trim* with a non-ASCII cutset")
		}
	}
	inSet := func(i int) *Term {
		c := False
		b := Select(s.Arr, Const(64, uint64(i)))
		for k := 0; k < len(cut.S); k++ {
			c = Or(c, Eq(b, Const(8, uint64(cut.S[k]))))
		}
		return c
	}
	end := s.Len
	if right {
		// end = 1 + the largest index < len whose byte is not in the set (0 if none)
		end = Const(64, 0)
		for i := 0; i < s.Max; i++ {
			end = Ite(And(Ult(Const(64, uint64(i)), s.Len), Not(inSet(i))), Const(64, uint64(i+1)), end)
		}
	}
	start := Const(64, 0)
	if left {
		// start = the smallest index < end whose byte is not in the set (end if none)
		start = end
		for i := s.Max - 1; i >= 0; i-- {
			start = Ite(And(Ult(Const(64, uint64(i)), end), Not(inSet(i))), Const(64, uint64(i)), start)
		}
	}
	n := Sub(end, start)
	arr := s.Arr
	if left {
		arr = ACopy(AConst(8, 0), Const(64, 0), s.Arr, start, n)
	}
	setRes(st, in, StringV{Sym: true, Arr: arr, Len: n, Max: s.Max, U: s.U})
	return true
}

// caseMap: strings.ToLower / ToUpper of a bounded symbolic string: byte-wise ASCII mapping on the
// path where every byte is ASCII; on the other path (some byte >= 0x80: Unicode case mapping, the
// length may change) the result is an arbitrary string and the path is imprecise.
func (ex *Exec) caseMap(st *State, s StringV, in *ssa.Call, upper bool) bool {
	if !s.Sym {
		if upper {
			setRes(st, in, StringV{S: strings.ToUpper(s.S)})
		} else {
			setRes(st, in, StringV{S: strings.ToLower(s.S)})
		}
		return true
	}
	ascii := True
	arr := AConst(8, 0)
	lo, hi, d := uint64('A'), uint64('Z'), uint64(32)
	if upper {
		lo, hi, d = 'a', 'z', 0x100-32
	}
	for i := 0; i < s.Max; i++ {
		b := Select(s.Arr, Const(64, uint64(i)))
		ascii = And(ascii, Or(Not(Ult(Const(64, uint64(i)), s.Len)), Ult(b, Const(8, 0x80))))
		arr = AStore(arr, Const(64, uint64(i)), Ite(And(Ule(Const(8, lo), b), Ule(b, Const(8, hi))), Add(b, Const(8, d)), b))
	}
	o := st.clone()
	o.pc = append(o.pc, Not(ascii))
	o.imprecise = true
	o.top().env[in] = ex.freshValue(o, in.Type(), "casemap", 0)
	ex.work = append(ex.work, o)
	st.pc = append(st.pc, ascii)
	setRes(st, in, StringV{Sym: true, Arr: arr, Len: s.Len, Max: s.Max, U: s.U})
	return true
}

// cleanString: a fresh bounded string whose content is not tracked and whose unsafe predicate is u;
// when u is false its bytes are additionally constrained not to be of the class (so that copies
// of its bytes stay clean).
func (ex *Exec) cleanString(st *State, prefix string, u *Term) StringV {
	ex.fresh++
	nm := fmt.Sprintf("%s!%d", prefix, ex.fresh)
	n := ex.namedVar(nm+".len", BV(64))
	const mx = 6
	st.pc = append(st.pc, Ule(n, Const(64, mx)))
	arr := AVar(nm, 8)
	if u.IsFalse() {
		for i := 0; i < mx; i++ {
			for _, c := range unsafeChars(st.unsafeClass) {
				st.pc = append(st.pc, Not(Eq(Select(arr, Const(64, uint64(i))), Const(8, uint64(c)))))
			}
		}
	}
	return StringV{Sym: true, Arr: arr, Len: n, Max: mx, U: u}
}

func isLimited(o *Obj) bool {
	if o == nil || o.T == nil {
		return false
	}
	_, ok := o.Val.(StructV)
	return ok && o.T.String() == "io.LimitedReader"
}

func errVal(name string) Value {
	return IfaceV{T: types.Universe.Lookup("error").Type(), V: OpaqueV{"err:" + name, 0}}
}

var nilErr = IfaceV{}

func init() {
	intrinsics = map[string]intrinsic{
		"(*log.Logger).Printf": func(ex *Exec, st *State, args []Value, in *ssa.Call, pos token.Pos) bool { return true },
		"log.Printf":           func(ex *Exec, st *State, args []Value, in *ssa.Call, pos token.Pos) bool { return true },
		"bytes.NewReader": func(ex *Exec, st *State, args []Value, in *ssa.Call, pos token.Pos) bool {
			b := args[0].(SliceV)
			var a *Term = AConst(8, 0)
			if b.Obj != 0 {
				av, _ := ex.sliceArr(st, b)
				a = av.A
			}
			id := ex.newObj(st, StreamV{A: a, Base: b.Off, N: b.Len, Pos: Const(64, 0)})
			if st.primary == 0 {
				st.primary = id
			}
			setRes(st, in, PtrV{Obj: id})
			return true
		},
		"bufio.NewReader": func(ex *Exec, st *State, args []Value, in *ssa.Call, pos token.Pos) bool {
			id, ok := ex.streamOf(st, args[0])
			if !ok {
				panic("bufio.NewReader over unknown reader")
			}
			setRes(st, in, PtrV{Obj: id})
			return true
		},
		"(*bufio.Reader).ReadByte": func(ex *Exec, st *State, args []Value, in *ssa.Call, pos token.Pos) bool {
			id, _ := ex.streamOf(st, args[0])
			okS, eofS := ex.fork(st, Ult(Const(64, 0), ex.remaining(st, id)))
			if eofS != nil {
				setRes(eofS, in, TupleV{Const(8, 0), errVal("io.EOF")})
				if okS != nil {
					ex.work = append(ex.work, eofS)
				}
			}
			if okS != nil {
				a, off := ex.consume(okS, id, Const(64, 1))
				setRes(okS, in, TupleV{Select(a, off), nilErr})
				return okS == st
			}
			return eofS == st
		},
		"(*bufio.Reader).Read": func(ex *Exec, st *State, args []Value, in *ssa.Call, pos token.Pos) bool {
			// Read may return ANY number of bytes between 1 and min(len(p), available): every
			// segmentation of the stream is covered by one symbolic count
			id, ok := ex.streamOf(st, args[0])
			if !ok {
				panic("bufio.Reader.Read on unknown reader")
			}
			buf := args[1].(SliceV)
			rem := ex.remaining(st, id)
			some, none := ex.fork(st, And(Ult(Const(64, 0), rem), Ult(Const(64, 0), buf.Len)))
			if none != nil {
				// nothing available (end of stream) or empty buffer
				eof, empty := ex.fork(none, Eq(ex.remaining(none, id), Const(64, 0)))
				if eof != nil {
					setRes(eof, in, TupleV{Const(64, 0), errVal("io.EOF")})
					if eof != st {
						ex.work = append(ex.work, eof)
					}
				}
				if empty != nil {
					setRes(empty, in, TupleV{Const(64, 0), nilErr})
					if empty != st {
						ex.work = append(ex.work, empty)
					}
				}
			}
			if some != nil {
				k := ex.freshVar("read.k", BV(64))
				some.pc = append(some.pc, Ule(Const(64, 1), k), Ule(k, buf.Len), Ule(k, ex.remaining(some, id)))
				a, off := ex.consume(some, id, k)
				ba, _ := ex.sliceArr(some, buf)
				some.heap[buf.Obj] = &Obj{Val: ArrV{ACopy(ba.A, buf.Off, a, off, k), ba.N, ba.ElW}}
				setRes(some, in, TupleV{k, nilErr})
				if some != st {
					ex.work = append(ex.work, some)
				}
			}
			return stBound(st, in)
		},
		"(*bytes.Reader).Read": func(ex *Exec, st *State, args []Value, in *ssa.Call, pos token.Pos) bool {
			// an in-memory reader returns exactly min(len(p), available) bytes
			id, ok := ex.streamOf(st, args[0])
			if !ok {
				panic("bytes.Reader.Read on unknown reader")
			}
			buf := args[1].(SliceV)
			rem := ex.remaining(st, id)
			some, none := ex.fork(st, And(Ult(Const(64, 0), rem), Ult(Const(64, 0), buf.Len)))
			if none != nil {
				// nothing available (end of stream) or empty buffer
				eof, empty := ex.fork(none, Eq(ex.remaining(none, id), Const(64, 0)))
				if eof != nil {
					setRes(eof, in, TupleV{Const(64, 0), errVal("io.EOF")})
					if eof != st {
						ex.work = append(ex.work, eof)
					}
				}
				if empty != nil {
					setRes(empty, in, TupleV{Const(64, 0), nilErr})
					if empty != st {
						ex.work = append(ex.work, empty)
					}
				}
			}
			if some != nil {
				r0 := ex.remaining(some, id)
				k := Ite(Ult(r0, buf.Len), r0, buf.Len)
				a, off := ex.consume(some, id, k)
				ba, _ := ex.sliceArr(some, buf)
				some.heap[buf.Obj] = &Obj{Val: ArrV{ACopy(ba.A, buf.Off, a, off, k), ba.N, ba.ElW}}
				setRes(some, in, TupleV{k, nilErr})
				if some != st {
					ex.work = append(ex.work, some)
				}
			}
			return stBound(st, in)
		},
		"golang.org/x/sys/unix.Getpagesize": func(ex *Exec, st *State, args []Value, in *ssa.Call, pos token.Pos) bool {
			setRes(st, in, Const(64, 4096))
			return true
		},
		"(*bufio.Reader).Discard": func(ex *Exec, st *State, args []Value, in *ssa.Call, pos token.Pos) bool {
			id, _ := ex.streamOf(st, args[0])
			n := args[1].(*Term)
			// negative count -> error
			neg, nonneg := ex.fork(st, Slt(n, Const(64, 0)))
			if neg != nil {
				setRes(neg, in, TupleV{Const(64, 0), errVal("bufio.ErrNegativeCount")})
				if nonneg != nil {
					ex.work = append(ex.work, neg)
				} else {
					return true
				}
			}
			if nonneg == nil {
				return false
			}
			s2 := nonneg
			okS, shortS := ex.fork(s2, Ule(n, ex.remaining(s2, id)))
			if shortS != nil {
				rem := ex.remaining(shortS, id)
				ex.consume(shortS, id, rem)
				setRes(shortS, in, TupleV{rem, errVal("io.EOF")})
				if okS != nil || shortS != st {
					ex.work = append(ex.work, shortS)
				}
			}
			if okS != nil {
				ex.consume(okS, id, n)
				setRes(okS, in, TupleV{n, nilErr})
				if okS != st {
					ex.work = append(ex.work, okS)
					return false
				}
				return true
			}
			return false
		},
		"io.ReadFull": func(ex *Exec, st *State, args []Value, in *ssa.Call, pos token.Pos) bool {
			id, ok := ex.streamOf(st, args[0])
			if !ok {
				// not one of the engine's streams (a reader written in Go): run the real io.ReadFull
				ex.pushCall(st, in.Call.StaticCallee(), args, in)
				return true
			}
			buf := args[1].(SliceV)
			n := buf.Len
			var outs []*State
			okS, shortS := ex.fork(st, Ule(n, ex.remaining(st, id)))
			if shortS != nil {
				// nothing left: io.EOF; some but not enough: io.ErrUnexpectedEOF with the bytes copied
				rem := ex.remaining(shortS, id)
				eofS, partS := ex.fork(shortS, Eq(rem, Const(64, 0)))
				if partS != nil {
					a, off := ex.consume(partS, id, rem)
					if buf.Obj != 0 {
						ba, _ := ex.sliceArr(partS, buf)
						partS.heap[buf.Obj] = &Obj{Val: ArrV{ACopy(ba.A, buf.Off, a, off, rem), ba.N, ba.ElW}}
					}
					setRes(partS, in, TupleV{rem, errVal("io.ErrUnexpectedEOF")})
					outs = append(outs, partS)
				}
				if eofS != nil {
					setRes(eofS, in, TupleV{Const(64, 0), errVal("io.EOF")})
					outs = append(outs, eofS)
				}
			}
			if okS != nil {
				a, off := ex.consume(okS, id, n)
				if buf.Obj != 0 {
					ba, _ := ex.sliceArr(okS, buf)
					okS.heap[buf.Obj] = &Obj{Val: ArrV{ACopy(ba.A, buf.Off, a, off, n), ba.N, ba.ElW}}
				}
				setRes(okS, in, TupleV{n, nilErr})
				outs = append(outs, okS)
			}
			cont := false
			for _, s := range outs {
				if s == st {
					cont = true
				} else {
					ex.work = append(ex.work, s)
				}
			}
			return cont
		},
		"encoding/binary.Read": func(ex *Exec, st *State, args []Value, in *ssa.Call, pos token.Pos) bool {
			id, ok := ex.streamOf(st, args[0])
			if !ok {
				panic("binary.Read on unknown reader")
			}
			data := args[2].(IfaceV)
			pt := data.T.Underlying().(*types.Pointer)
			w, _ := isScalarType(pt.Elem())
			nb := Const(64, uint64(w/8))
			okS, shortS := ex.fork(st, Ule(nb, ex.remaining(st, id)))
			if shortS != nil {
				ex.consume(shortS, id, ex.remaining(shortS, id))
				setRes(shortS, in, errVal("io.ErrUnexpectedEOF"))
				if okS != nil {
					ex.work = append(ex.work, shortS)
				}
			}
			if okS != nil {
				a, off := ex.consume(okS, id, nb)
				v := Const(w, 0)
				for i := 0; i < w/8; i++ {
					b := Zext(Select(a, Add(off, Const(64, uint64(i)))), w)
					v = BOr(Shl(v, Const(w, 8)), b)
				}
				if !ex.store(okS, data.V.(PtrV), v, pos) {
					return false
				}
				setRes(okS, in, nilErr)
				return okS == st
			}
			return shortS == st
		},
		"github.com/zeebo/bencode.NewDecoder": func(ex *Exec, st *State, args []Value, in *ssa.Call, pos token.Pos) bool {
			id, ok := ex.streamOf(st, args[0])
			if !ok {
				setRes(st, in, PtrV{Obj: ex.newObj(st, OpaqueV{"bencode.Decoder", 0})})
				return true
			}
			nid := ex.newObj(st, DecoderV{R: id, Parsed: Const(64, 0)})
			setRes(st, in, PtrV{Obj: nid})
			return true
		},
		"(*github.com/zeebo/bencode.Decoder).Decode": func(ex *Exec, st *State, args []Value, in *ssa.Call, pos token.Pos) bool {
			did := args[0].(PtrV).Obj
			if tg, ok := args[1].(IfaceV); ok && tg.T != nil {
				if r, ok := st.takeBencReg(tg.T.Underlying().(*types.Pointer).Elem()); ok {
					if d, isDec := st.heap[did].Val.(DecoderV); isDec && r.N != nil {
						// the registered value stands for an encoding of r.N bytes: the decoder consumes exactly those
						if !ex.feasible(st, Ule(r.N, ex.remaining(st, d.R))) {
							setRes(st, in, errVal("bencode.truncated"))
							return true
						}
						st.pc = append(st.pc, Ule(r.N, ex.remaining(st, d.R)))
						ex.consume(st, d.R, r.N)
						st.heap[did] = &Obj{Val: DecoderV{d.R, Add(d.Parsed, r.N)}}
					}
					if !ex.store(st, tg.V.(PtrV), r.V, pos) {
						return false
					}
					setRes(st, in, nilErr)
					return true
				}
			}
			st.stubbed = true
			d, isDec := st.heap[did].Val.(DecoderV)
			if !isDec {
				// decoder over a reader the engine does not model: arbitrary outcome
				o := st.clone()
				setRes(o, in, errVal("bencode"))
				ex.work = append(ex.work, o)
				target := args[1].(IfaceV)
				pt := target.T.Underlying().(*types.Pointer)
				if !ex.store(st, target.V.(PtrV), ex.havocDeep(st, pt.Elem(), "bencode"), pos) {
					return false
				}
				setRes(st, in, nilErr)
				return true
			}
			k := ex.freshVar("bencode.k", BV(64))
			st.pc = append(st.pc, Ule(k, ex.remaining(st, d.R)))
			ex.consume(st, d.R, k)
			st.heap[did] = &Obj{Val: DecoderV{d.R, Add(d.Parsed, k)}}
			okS, errS := ex.fork(st, ex.freshVar("bencode.ok", BoolSort))
			if errS != nil {
				setRes(errS, in, errVal("bencode"))
				if okS != nil {
					ex.work = append(ex.work, errS)
				}
			}
			if okS != nil {
				target := args[1].(IfaceV)
				pt := target.T.Underlying().(*types.Pointer)
				if !ex.store(okS, target.V.(PtrV), ex.havocDeep(okS, pt.Elem(), "bencode"), pos) {
					return false
				}
				setRes(okS, in, nilErr)
				return okS == st
			}
			return errS == st
		},
		"(*github.com/zeebo/bencode.Decoder).BytesParsed": func(ex *Exec, st *State, args []Value, in *ssa.Call, pos token.Pos) bool {
			d := st.heap[args[0].(PtrV).Obj].Val.(DecoderV)
			setRes(st, in, d.Parsed)
			return true
		},
		"io.Copy": func(ex *Exec, st *State, args []Value, in *ssa.Call, pos token.Pos) bool {
			id, ok := ex.streamOf(st, args[1])
			if !ok {
				panic("io.Copy from unknown reader")
			}
			rem := ex.remaining(st, id)
			ex.consume(st, id, rem)
			setRes(st, in, TupleV{rem, nilErr})
			return true
		},
		"(*sync.Pool).Get": func(ex *Exec, st *State, args []Value, in *ssa.Call, pos token.Pos) bool {
			n := Const(64, 16384)
			s := SliceV{ex.newObj(st, ArrV{ex.freshArr("pool"), -1, 8}), Const(64, 0), n, n}
			setRes(st, in, IfaceV{T: types.NewSlice(types.Typ[types.Uint8]), V: s})
			return true
		},
		"github.com/zeebo/bencode.EncodeBytes": func(ex *Exec, st *State, args []Value, in *ssa.Call, pos token.Pos) bool {
			iv := args[0].(IfaceV)
			var v Value = iv.V
			tp := iv.T
			if pt, ok := iv.T.Underlying().(*types.Pointer); ok {
				lv, ok := ex.load(st, iv.V.(PtrV), pos)
				if !ok {
					return false
				}
				v, tp = lv, pt.Elem()
			}
			n := ex.freshVar("benc.len", BV(64))
			st.pc = append(st.pc, Ule(Const(64, 2), n), Ule(n, Const(64, 4096)))
			st.bencNext = append(st.bencNext, bencReg{tp, v, n})
			st.stubbed = true
			setRes(st, in, TupleV{SliceV{ex.newObj(st, ArrV{ex.freshArr("benc"), -1, 8}), Const(64, 0), n, n}, nilErr})
			return true
		},
		"bufio.NewWriter": func(ex *Exec, st *State, args []Value, in *ssa.Call, pos token.Pos) bool {
			under := 0
			if iv, ok := args[0].(IfaceV); ok && iv.T != nil {
				if p, ok := iv.V.(PtrV); ok {
					under = p.Obj
				}
			}
			setRes(st, in, PtrV{Obj: ex.newObj(st, WriterV{A: AConst(8, 0), N: Const(64, 0), Under: under})})
			return true
		},
		"(*bufio.Writer).AvailableBuffer": func(ex *Exec, st *State, args []Value, in *ssa.Call, pos token.Pos) bool {
			setRes(st, in, SliceV{ex.newObj(st, ArrV{AConst(8, 0), -1, 8}), Const(64, 0), Const(64, 0), Const(64, 4096)})
			return true
		},
		"(*bufio.Writer).Write": func(ex *Exec, st *State, args []Value, in *ssa.Call, pos token.Pos) bool {
			id := args[0].(PtrV).Obj
			w := st.heap[id].Val.(WriterV)
			b := args[1].(SliceV)
			if b.Obj != 0 {
				ba, _ := ex.sliceArr(st, b)
				w.A = ACopy(w.A, w.N, ba.A, b.Off, b.Len)
				w.N = Add(w.N, b.Len)
				st.heap[id] = &Obj{Val: w}
			}
			setRes(st, in, TupleV{b.Len, nilErr})
			return true
		},
		"(*bufio.Writer).Flush": func(ex *Exec, st *State, args []Value, in *ssa.Call, pos token.Pos) bool {
			setRes(st, in, nilErr)
			return true
		},
		"(*bytes.Buffer).Bytes": func(ex *Exec, st *State, args []Value, in *ssa.Call, pos token.Pos) bool {
			bid := args[0].(PtrV).Obj
			for _, o := range st.heap {
				if w, ok := o.Val.(WriterV); ok && w.Under == bid {
					setRes(st, in, SliceV{ex.newObj(st, ArrV{w.A, -1, 8}), Const(64, 0), w.N, w.N})
					return true
				}
			}
			setRes(st, in, zeroValue(in.Type()))
			return true
		},
		"github.com/zeebo/bencode.NewEncoder": func(ex *Exec, st *State, args []Value, in *ssa.Call, pos token.Pos) bool {
			setRes(st, in, PtrV{Obj: ex.newObj(st, OpaqueV{"bencode.Encoder", 0})})
			return true
		},
		"(*github.com/zeebo/bencode.Encoder).Encode": func(ex *Exec, st *State, args []Value, in *ssa.Call, pos token.Pos) bool {
			st.lastEnc = args[1]
			o := st.clone()
			setRes(o, in, errVal("bencode.encode"))
			ex.work = append(ex.work, o)
			setRes(st, in, nilErr)
			return true
		},
		"crypto/rand.Read": func(ex *Exec, st *State, args []Value, in *ssa.Call, pos token.Pos) bool {
			b := args[0].(SliceV)
			if b.Obj != 0 {
				a, _ := ex.sliceArr(st, b)
				st.heap[b.Obj] = &Obj{Val: ArrV{ACopy(a.A, b.Off, ex.freshArr("crand"), Const(64, 0), b.Len), a.N, a.ElW}}
			}
			setRes(st, in, TupleV{b.Len, nilErr})
			return true
		},
		"log.New": func(ex *Exec, st *State, args []Value, in *ssa.Call, pos token.Pos) bool {
			et := in.Type().Underlying().(*types.Pointer).Elem()
			setRes(st, in, PtrV{Obj: ex.newObj(st, zeroValue(et))})
			return true
		},
		"(*log.Logger).Println": nop,
		"log.Println":           nop,
		"net/url.Parse": func(ex *Exec, st *State, args []Value, in *ssa.Call, pos token.Pos) bool {
			// adversarial URL parser: fails, or yields a URL whose scheme is any short string
			st.stubbed = true
			tup := in.Type().(*types.Tuple)
			o := st.clone()
			setRes(o, in, TupleV{PtrV{}, errVal("url.Parse")})
			ex.work = append(ex.work, o)
			et := tup.At(0).Type().Underlying().(*types.Pointer).Elem()
			u := zeroValue(et).(StructV)
			f := append([]Value(nil), u.F...)
			ex.fresh++
			nm := fmt.Sprintf("url.scheme!%d", ex.fresh)
			n := ex.namedVar(nm+".len", BV(64))
			st.pc = append(st.pc, Ule(n, Const(64, 5)))
			f[0] = StringV{Sym: true, Arr: AVar(nm, 8), Len: n, Max: 5}
			id := ex.newObj(st, StructV{f})
			st.heap[id].T = et
			setRes(st, in, TupleV{PtrV{Obj: id}, nilErr})
			return true
		},
		"(*sync.Pool).Put": func(ex *Exec, st *State, args []Value, in *ssa.Call, pos token.Pos) bool { return true },
		"(*sync.RWMutex).Lock":    muOp("lock"),
		"(*sync.RWMutex).Unlock":  muOp("unlock"),
		"(*sync.RWMutex).RLock":   muOp("rlock"),
		"(*sync.RWMutex).RUnlock": muOp("runlock"),
		"(*sync.Mutex).Lock":      muOp("lock"),
		"(*sync.Mutex).Unlock":    muOp("unlock"),
		"time.Now": func(ex *Exec, st *State, args []Value, in *ssa.Call, pos token.Pos) bool {
			t := ex.freshVar("now", BV(64))
			st.pc = append(st.pc, Sle(clockFloor(st), t), Slt(t, Const(64, 1<<62)))
			st.notes = append(st.notes, "clock:"+t.Name)
			setRes(st, in, mkTime(in.Type(), t))
			return true
		},
		"time.Since": func(ex *Exec, st *State, args []Value, in *ssa.Call, pos token.Pos) bool {
			t := ex.freshVar("now", BV(64))
			st.pc = append(st.pc, Sle(clockFloor(st), t), Slt(t, Const(64, 1<<62)))
			st.notes = append(st.notes, "clock:"+t.Name)
			setRes(st, in, Sub(t, timeExt(args[0])))
			return true
		},
		"time.Unix": func(ex *Exec, st *State, args []Value, in *ssa.Call, pos token.Pos) bool {
			setRes(st, in, mkTime(in.Type(), Add(Mul(args[0].(*Term), Const(64, 1000000000)), args[1].(*Term))))
			return true
		},
		"(time.Time).After": func(ex *Exec, st *State, args []Value, in *ssa.Call, pos token.Pos) bool {
			setRes(st, in, Slt(timeExt(args[1]), timeExt(args[0])))
			return true
		},
		"(time.Time).IsZero": func(ex *Exec, st *State, args []Value, in *ssa.Call, pos token.Pos) bool {
			setRes(st, in, Eq(timeExt(args[0]), Const(64, 0)))
			return true
		},
		"(time.Time).Compare": func(ex *Exec, st *State, args []Value, in *ssa.Call, pos token.Pos) bool {
			a, b := timeExt(args[0]), timeExt(args[1])
			setRes(st, in, Ite(Slt(a, b), Const(64, ^uint64(0)), Ite(Eq(a, b), Const(64, 0), Const(64, 1))))
			return true
		},
		"(time.Time).Equal": func(ex *Exec, st *State, args []Value, in *ssa.Call, pos token.Pos) bool {
			setRes(st, in, Eq(timeExt(args[0]), timeExt(args[1])))
			return true
		},
		"(time.Time).Before": func(ex *Exec, st *State, args []Value, in *ssa.Call, pos token.Pos) bool {
			setRes(st, in, Slt(timeExt(args[0]), timeExt(args[1])))
			return true
		},
		"(time.Time).Add": func(ex *Exec, st *State, args []Value, in *ssa.Call, pos token.Pos) bool {
			setRes(st, in, mkTime(in.Type(), Add(timeExt(args[0]), args[1].(*Term))))
			return true
		},
		"(time.Time).Sub": func(ex *Exec, st *State, args []Value, in *ssa.Call, pos token.Pos) bool {
			setRes(st, in, Sub(timeExt(args[0]), timeExt(args[1])))
			return true
		},
		"bytes.Index": func(ex *Exec, st *State, args []Value, in *ssa.Call, pos token.Pos) bool {
			// exact first occurrence of a pattern of concrete length in a slice of bounded length
			w, v := args[0].(SliceV), args[1].(SliceV)
			if !v.Len.IsConst() {
				panic("bytes.Index with a pattern of symbolic length")
			}
			vl := int(v.Len.Val)
			bound := 96
			if w.Len.IsConst() {
				bound = int(w.Len.Val)
			} else if !ex.feasible(st, Ule(w.Len, Const(64, uint64(bound)))) || ex.feasible(st, Ult(Const(64, uint64(bound)), w.Len)) {
				panic("bytes.Index over a slice that may be longer than 96 bytes")
			}
			if w.Obj == 0 || vl == 0 {
				if vl == 0 {
					setRes(st, in, Const(64, 0))
				} else {
					setRes(st, in, Const(64, ^uint64(0)))
				}
				return true
			}
			wa, _ := ex.sliceArr(st, w)
			va, _ := ex.sliceArr(st, v)
			var res *Term = Const(64, ^uint64(0))
			for i := bound - vl; i >= 0; i-- {
				m := Ule(Const(64, uint64(i+vl)), w.Len)
				for k := 0; k < vl; k++ {
					m = And(m, Eq(Select(wa.A, Add(w.Off, Const(64, uint64(i+k)))), Select(va.A, Add(v.Off, Const(64, uint64(k))))))
				}
				res = Ite(m, Const(64, uint64(i)), res)
			}
			setRes(st, in, res)
			return true
		},
		"bytes.Compare": func(ex *Exec, st *State, args []Value, in *ssa.Call, pos token.Pos) bool {
			a, b := args[0].(SliceV), args[1].(SliceV)
			if !a.Len.IsConst() || !b.Len.IsConst() || a.Len.Val > 64 || b.Len.Val > 64 {
				panic("bytes.Compare of slices of symbolic or large length")
			}
			// lexicographic: decided at the first differing byte, else by length
			n := a.Len.Val
			if b.Len.Val < n {
				n = b.Len.Val
			}
			var res *Term
			switch {
			case a.Len.Val < b.Len.Val:
				res = Const(64, ^uint64(0))
			case a.Len.Val > b.Len.Val:
				res = Const(64, 1)
			default:
				res = Const(64, 0)
			}
			if n > 0 {
				aa, _ := ex.sliceArr(st, a)
				ba, _ := ex.sliceArr(st, b)
				for i := int64(n) - 1; i >= 0; i-- {
					x := Select(aa.A, Add(a.Off, Const(64, uint64(i))))
					y := Select(ba.A, Add(b.Off, Const(64, uint64(i))))
					res = Ite(Ult(x, y), Const(64, ^uint64(0)), Ite(Ult(y, x), Const(64, 1), res))
				}
			}
			setRes(st, in, res)
			return true
		},
		"bytes.Equal": func(ex *Exec, st *State, args []Value, in *ssa.Call, pos token.Pos) bool {
			a, b := args[0].(SliceV), args[1].(SliceV)
			if !a.Len.IsConst() && b.Len.IsConst() {
				a, b = b, a
			}
			if !a.Len.IsConst() {
				// both lengths symbolic: skolemised extensional equality (exact on the "differ" side,
				// an over-approximation on the "equal" side: equal at one arbitrary index)
				j := ex.freshVar("bytes.eq.j", BV(64))
				c := Eq(a.Len, b.Len)
				if a.Obj != 0 && b.Obj != 0 {
					aa, _ := ex.sliceArr(st, a)
					ba, _ := ex.sliceArr(st, b)
					c = And(c, Or(Not(Ult(j, a.Len)), Eq(Select(aa.A, Add(a.Off, j)), Select(ba.A, Add(b.Off, j)))))
				}
				setRes(st, in, c)
				return true
			}
			c := Eq(a.Len, b.Len)
			if c.IsFalse() {
				setRes(st, in, False)
				return true
			}
			if a.Len.Val > 0 {
				aa, _ := ex.sliceArr(st, a)
				ba, _ := ex.sliceArr(st, b)
				for i := uint64(0); i < a.Len.Val; i++ {
					c = And(c, Eq(Select(aa.A, Add(a.Off, Const(64, i))), Select(ba.A, Add(b.Off, Const(64, i)))))
				}
			}
			setRes(st, in, c)
			return true
		},
		"context.Background": func(ex *Exec, st *State, args []Value, in *ssa.Call, pos token.Pos) bool {
			setRes(st, in, IfaceV{T: in.Type(), V: OpaqueV{"ctx", 0}})
			return true
		},
		"(*net/http.Request).Context": func(ex *Exec, st *State, args []Value, in *ssa.Call, pos token.Pos) bool {
			setRes(st, in, IfaceV{T: in.Type(), V: OpaqueV{"ctx", 0}})
			return true
		},
		"time.NewTicker": func(ex *Exec, st *State, args []Value, in *ssa.Call, pos token.Pos) bool {
			et := in.Type().Underlying().(*types.Pointer).Elem()
			z := zeroValue(et).(StructV)
			if st.tickMask&(1<<uint(st.tickSeq)) != 0 {
				// a live ticker (vTickers): its channel is an environment channel that delivers a bounded number of ticks
				f := append([]Value(nil), z.F...)
				f[0] = ChanV{ex.newObj(st, ChanState{Env: true, Budget: st.tickBudget})}
				z = StructV{f}
			}
			st.tickSeq++
			setRes(st, in, PtrV{Obj: ex.newObj(st, z)})
			return true
		},
		"(*sync.WaitGroup).Add": func(ex *Exec, st *State, args []Value, in *ssa.Call, pos token.Pos) bool {
			st.wgs[ptrKey(args[0].(PtrV))] += int(int64(args[1].(*Term).Val))
			return true
		},
		"(*sync.WaitGroup).Done": func(ex *Exec, st *State, args []Value, in *ssa.Call, pos token.Pos) bool {
			st.wgs[ptrKey(args[0].(PtrV))]--
			ex.wake(st)
			return true
		},
		"(*sync.WaitGroup).Wait": func(ex *Exec, st *State, args []Value, in *ssa.Call, pos token.Pos) bool {
			if st.wgs[ptrKey(args[0].(PtrV))] > 0 {
				if len(st.threads) == 1 {
					ex.finish(st, "blocked", "WaitGroup.Wait with nobody left to call Done", pos)
					return false
				}
				panic("WaitGroup.Wait granted with a positive counter")
			}
			return true
		},
		"(*bytes.Reader).Len": func(ex *Exec, st *State, args []Value, in *ssa.Call, pos token.Pos) bool {
			id, ok := ex.streamOf(st, args[0])
			if !ok {
				panic("bytes.Reader.Len on unknown reader")
			}
			setRes(st, in, ex.remaining(st, id))
			return true
		},
		"io.ReadAll": func(ex *Exec, st *State, args []Value, in *ssa.Call, pos token.Pos) bool {
			id, ok := ex.streamOf(st, args[0])
			if !ok {
				panic("io.ReadAll from unknown reader")
			}
			rem := ex.remaining(st, id)
			a, off := ex.consume(st, id, rem)
			setRes(st, in, TupleV{SliceV{ex.newObj(st, ArrV{ACopy(AConst(8, 0), Const(64, 0), a, off, rem), -1, 8}), Const(64, 0), rem, rem}, nilErr})
			return true
		},
		"math/rand/v2.New": func(ex *Exec, st *State, args []Value, in *ssa.Call, pos token.Pos) bool {
			et := in.Type().Underlying().(*types.Pointer).Elem()
			setRes(st, in, PtrV{Obj: ex.newObj(st, zeroValue(et))})
			return true
		},
		"math/rand/v2.NewPCG": func(ex *Exec, st *State, args []Value, in *ssa.Call, pos token.Pos) bool {
			et := in.Type().Underlying().(*types.Pointer).Elem()
			setRes(st, in, PtrV{Obj: ex.newObj(st, zeroValue(et))})
			return true
		},
		"math/rand/v2.Uint64": func(ex *Exec, st *State, args []Value, in *ssa.Call, pos token.Pos) bool {
			setRes(st, in, ex.freshVar("rand", BV(64)))
			return true
		},
		"math/rand/v2.N[time.Duration]": func(ex *Exec, st *State, args []Value, in *ssa.Call, pos token.Pos) bool {
			v := ex.freshVar("rand", BV(64))
			st.pc = append(st.pc, Sle(Const(64, 0), v), Slt(v, args[0].(*Term)))
			setRes(st, in, v)
			return true
		},
		"(*math/rand/v2.Rand).IntN": func(ex *Exec, st *State, args []Value, in *ssa.Call, pos token.Pos) bool {
			v := ex.freshVar("rand", BV(64))
			st.pc = append(st.pc, Sle(Const(64, 0), v), Slt(v, args[1].(*Term)))
			setRes(st, in, v)
			return true
		},
		"context.WithCancel": func(ex *Exec, st *State, args []Value, in *ssa.Call, pos token.Pos) bool {
			nop := ex.modelFunc("Nop")
			setRes(st, in, TupleV{args[0], FuncV{Fn: nop}})
			return true
		},
		"math/rand/v2.Uint32": func(ex *Exec, st *State, args []Value, in *ssa.Call, pos token.Pos) bool {
			setRes(st, in, ex.freshVar("rand", BV(32)))
			return true
		},
		"time.NewTimer": func(ex *Exec, st *State, args []Value, in *ssa.Call, pos token.Pos) bool {
			et := in.Type().Underlying().(*types.Pointer).Elem()
			z := zeroValue(et).(StructV)
			f := append([]Value(nil), z.F...)
			f[0] = ChanV{ex.newObj(st, ChanState{Env: true})}
			setRes(st, in, PtrV{Obj: ex.newObj(st, StructV{f})})
			return true
		},
		"(*time.Timer).Stop": func(ex *Exec, st *State, args []Value, in *ssa.Call, pos token.Pos) bool {
			setRes(st, in, ex.freshVar("timer.stop", BoolSort))
			return true
		},
		"runtime.SetFinalizer": nop,
		"fmt.Errorf": func(ex *Exec, st *State, args []Value, in *ssa.Call, pos token.Pos) bool {
			ex.fresh++
			setRes(st, in, IfaceV{T: types.Universe.Lookup("error").Type(), V: OpaqueV{"err:fmt.Errorf", ex.fresh}})
			return true
		},
		"fmt.Fprintf": func(ex *Exec, st *State, args []Value, in *ssa.Call, pos token.Pos) bool {
			// what matters of formatted output is which attacker-controlled strings reach it unescaped
			u := st.outUnsafe
			if u == nil {
				u = False
			}
			for _, a := range args[2:] {
				u = Or(u, ex.taintOf(st, a, 0))
			}
			st.outUnsafe = u
			st.effects = append(st.effects, "write")
			setRes(st, in, TupleV{ex.freshVar("fprintf.n", BV(64)), nilErr})
			return true
		},
		"fmt.Sprintf": func(ex *Exec, st *State, args []Value, in *ssa.Call, pos token.Pos) bool {
			var u *Term = False
			for _, a := range args[1:] {
				u = Or(u, ex.taintOf(st, a, 0))
			}
			ex.fresh++
			nm := fmt.Sprintf("sprintf!%d", ex.fresh)
			n := ex.namedVar(nm+".len", BV(64))
			st.pc = append(st.pc, Ule(n, Const(64, 8)))
			setRes(st, in, StringV{Sym: true, Arr: AVar(nm, 8), Len: n, Max: 8, U: u})
			return true
		},
		"html.EscapeString": func(ex *Exec, st *State, args []Value, in *ssa.Call, pos token.Pos) bool {
			s := args[0].(StringV)
			var u *Term = False // no < > " ' survives escaping
			if st.unsafeClass == 1 {
				u = ex.unsafeTerm(st, s) // line breaks do
			}
			setRes(st, in, ex.cleanString(st, "esc", u))
			return true
		},
		"net/url.PathEscape": func(ex *Exec, st *State, args []Value, in *ssa.Call, pos token.Pos) bool {
			setRes(st, in, ex.cleanString(st, "pathesc", False)) // percent-encodes quotes, angle brackets and line breaks
			return true
		},
		"strings.Replace": func(ex *Exec, st *State, args []Value, in *ssa.Call, pos token.Pos) bool {
			s := args[0].(StringV)
			if !s.Sym {
				o, n := args[1].(StringV), args[2].(StringV)
				if !o.Sym && !n.Sym && args[3].(*Term).IsConst() {
					setRes(st, in, StringV{S: strings.Replace(s.S, o.S, n.S, int(int64(args[3].(*Term).Val)))})
					return true
				}
			}
			// replacing commas etc.: the result may carry whatever unsafe characters the argument had
			// (sound as long as the replaced text is not of the unsafe class)
			u := ex.unsafeTerm(st, s)
			if o := args[1].(StringV); !o.Sym {
				for i := 0; i < len(o.S); i++ {
					for _, c := range unsafeChars(st.unsafeClass) {
						if o.S[i] == c {
							u = False // the unsafe characters themselves are what is replaced
						}
					}
				}
			}
			setRes(st, in, ex.cleanString(st, "repl", u))
			return true
		},
		"strings.NewReplacer": func(ex *Exec, st *State, args []Value, in *ssa.Call, pos token.Pos) bool {
			sl := args[0].(SliceV)
			var cells []Value
			if sl.Obj != 0 {
				cells = st.heap[sl.Obj].Val.(CellsV).C
			}
			setRes(st, in, PtrV{Obj: ex.newObj(st, CellsV{append([]Value(nil), cells...)})})
			return true
		},
		"(*strings.Replacer).Replace": func(ex *Exec, st *State, args []Value, in *ssa.Call, pos token.Pos) bool {
			pairs := st.heap[args[0].(PtrV).Obj].Val.(CellsV).C
			s := args[1].(StringV)
			// the result carries an unsafe character of the argument unless every character of the class
			// is replaced by text without one
			covered := true
			for _, c := range unsafeChars(st.unsafeClass) {
				ok := false
				for i := 0; i+1 < len(pairs); i += 2 {
					o, n := pairs[i].(StringV), pairs[i+1].(StringV)
					if !o.Sym && !n.Sym && o.S == string([]byte{c}) && ex.unsafeTerm(st, n).IsFalse() {
						ok = true
					}
				}
				if !ok {
					covered = false
				}
			}
			var u *Term = False
			if !covered {
				u = ex.unsafeTerm(st, s)
			}
			setRes(st, in, ex.cleanString(st, "replacer", u))
			return true
		},
		"strings.ToLower": func(ex *Exec, st *State, args []Value, in *ssa.Call, pos token.Pos) bool {
			return ex.caseMap(st, args[0].(StringV), in, false)
		},
		"strings.ToUpper": func(ex *Exec, st *State, args []Value, in *ssa.Call, pos token.Pos) bool {
			return ex.caseMap(st, args[0].(StringV), in, true)
		},
		"strings.TrimRight": func(ex *Exec, st *State, args []Value, in *ssa.Call, pos token.Pos) bool {
			return ex.trimSet(st, args[0].(StringV), args[1].(StringV), in, false, true)
		},
		"strings.TrimLeft": func(ex *Exec, st *State, args []Value, in *ssa.Call, pos token.Pos) bool {
			return ex.trimSet(st, args[0].(StringV), args[1].(StringV), in, true, false)
		},
		"strings.Trim": func(ex *Exec, st *State, args []Value, in *ssa.Call, pos token.Pos) bool {
			return ex.trimSet(st, args[0].(StringV), args[1].(StringV), in, true, true)
		},
		"strings.HasSuffix": func(ex *Exec, st *State, args []Value, in *ssa.Call, pos token.Pos) bool {
			s, p := args[0].(StringV), args[1].(StringV)
			if !s.Sym && !p.Sym {
				setRes(st, in, BoolC(strings.HasSuffix(s.S, p.S)))
				return true
			}
			if p.Sym {
				panic("strings.HasSuffix with a symbolic suffix")
			}
			setRes(st, in, symHasSuffix(s, p.S))
			return true
		},
		"strings.TrimSuffix": func(ex *Exec, st *State, args []Value, in *ssa.Call, pos token.Pos) bool {
			s, p := args[0].(StringV), args[1].(StringV)
			if !s.Sym && !p.Sym {
				setRes(st, in, StringV{S: strings.TrimSuffix(s.S, p.S)})
				return true
			}
			if p.Sym {
				panic("strings.TrimSuffix with a symbolic suffix")
			}
			k := Const(64, uint64(len(p.S)))
			setRes(st, in, StringV{Sym: true, Arr: s.Arr, Len: Ite(symHasSuffix(s, p.S), Sub(s.Len, k), s.Len), Max: s.Max, U: s.U})
			return true
		},
		"strings.TrimPrefix": func(ex *Exec, st *State, args []Value, in *ssa.Call, pos token.Pos) bool {
			s, p := args[0].(StringV), args[1].(StringV)
			if !s.Sym && !p.Sym {
				setRes(st, in, StringV{S: strings.TrimPrefix(s.S, p.S)})
				return true
			}
			if p.Sym {
				panic("strings.TrimPrefix with a symbolic prefix")
			}
			k := Const(64, uint64(len(p.S)))
			c := Ule(k, s.Len)
			for i := 0; i < len(p.S); i++ {
				c = And(c, Eq(Select(s.Arr, Const(64, uint64(i))), Const(8, uint64(p.S[i]))))
			}
			off := Ite(c, k, Const(64, 0))
			n := Sub(s.Len, off)
			setRes(st, in, StringV{Sym: true, Arr: ACopy(AConst(8, 0), Const(64, 0), s.Arr, off, n), Len: n, Max: s.Max, U: s.U})
			return true
		},
		"strings.EqualFold": func(ex *Exec, st *State, args []Value, in *ssa.Call, pos token.Pos) bool {
			a, b := args[0].(StringV), args[1].(StringV)
			if !a.Sym && !b.Sym {
				setRes(st, in, BoolC(strings.EqualFold(a.S, b.S)))
				return true
			}
			if b.Sym {
				a, b = b, a
			}
			if b.Sym {
				panic("strings.EqualFold of two symbolic strings")
			}
			for i := 0; i < len(b.S); i++ {
				if b.S[i] >= 0x80 || b.S[i] == 'k' || b.S[i] == 'K' || b.S[i] == 's' || b.S[i] == 'S' {
					// non-ASCII literal, or letters with non-ASCII case variants (Kelvin sign, long s): not modelled
					st.imprecise = true
					setRes(st, in, ex.freshVar("equalfold", BoolSort))
					return true
				}
			}
			c := Eq(a.Len, Const(64, uint64(len(b.S))))
			for i := 0; i < len(b.S) && i < a.Max; i++ {
				x := Select(a.Arr, Const(64, uint64(i)))
				lo := b.S[i]
				if lo >= 'A' && lo <= 'Z' {
					lo += 32
				}
				if lo >= 'a' && lo <= 'z' {
					c = And(c, Or(Eq(x, Const(8, uint64(lo))), Eq(x, Const(8, uint64(lo-32)))))
				} else {
					c = And(c, Eq(x, Const(8, uint64(lo))))
				}
			}
			if len(b.S) > a.Max {
				c = False
			}
			setRes(st, in, c)
			return true
		},
		"errors.Is": func(ex *Exec, st *State, args []Value, in *ssa.Call, pos token.Pos) bool {
			// identity of error values; an error built by fmt.Errorf may wrap anything (%w): imprecise
			e, t := args[0].(IfaceV), args[1].(IfaceV)
			if e.V == nil {
				setRes(st, in, BoolC(t.V == nil))
				return true
			}
			if o, ok := e.V.(OpaqueV); ok && strings.HasPrefix(o.Kind, "err:fmt.Errorf") {
				st.imprecise = true
				setRes(st, in, ex.freshVar("errors.is", BoolSort))
				return true
			}
			setRes(st, in, ex.valEq(e, t))
			return true
		},
		"net/url.PathUnescape": func(ex *Exec, st *State, args []Value, in *ssa.Call, pos token.Pos) bool {
			// identity on a string without '%'; otherwise an error, or some strictly shorter string
			// (the decoded text: not computed - an arbitrary string carrying what the argument carried)
			s := args[0].(StringV)
			if !s.Sym {
				r, err := url.PathUnescape(s.S)
				if err != nil {
					setRes(st, in, TupleV{StringV{}, errVal("url.PathUnescape")})
				} else {
					setRes(st, in, TupleV{StringV{S: r}, nilErr})
				}
				return true
			}
			has := False
			for i := 0; i < s.Max; i++ {
				has = Or(has, And(Ult(Const(64, uint64(i)), s.Len), Eq(Select(s.Arr, Const(64, uint64(i))), Const(8, '%'))))
			}
			if ex.feasible(st, has) {
				o := st.clone()
				o.pc = append(o.pc, has)
				o.top().env[in] = TupleV{StringV{}, errVal("url.PathUnescape")}
				ex.work = append(ex.work, o)
				o2 := st.clone()
				o2.pc = append(o2.pc, has)
				ex.fresh++
				nm := fmt.Sprintf("unesc!%d", ex.fresh)
				n := ex.namedVar(nm+".len", BV(64))
				o2.pc = append(o2.pc, Ult(n, s.Len))
				o2.top().env[in] = TupleV{StringV{Sym: true, Arr: AVar(nm, 8), Len: n, Max: s.Max, U: ex.unsafeTerm(o2, s)}, nilErr}
				ex.work = append(ex.work, o2)
			}
			if !ex.feasible(st, Not(has)) {
				return false
			}
			st.pc = append(st.pc, Not(has))
			setRes(st, in, TupleV{s, nilErr})
			return true
		},
		"strings.HasPrefix": func(ex *Exec, st *State, args []Value, in *ssa.Call, pos token.Pos) bool {
			s, p := args[0].(StringV), args[1].(StringV)
			if !s.Sym && !p.Sym {
				setRes(st, in, BoolC(strings.HasPrefix(s.S, p.S)))
				return true
			}
			if p.Sym {
				panic("strings.HasPrefix with a symbolic prefix")
			}
			c := Ule(Const(64, uint64(len(p.S))), s.Len)
			for i := 0; i < len(p.S); i++ {
				c = And(c, Eq(Select(s.Arr, Const(64, uint64(i))), Const(8, uint64(p.S[i]))))
			}
			setRes(st, in, c)
			return true
		},
		"strings.Join": func(ex *Exec, st *State, args []Value, in *ssa.Call, pos token.Pos) bool {
			sl := args[0].(SliceV)
			sep := args[1].(StringV)
			if !sl.Len.IsConst() || !sl.Off.IsConst() || sep.Sym {
				panic("strings.Join on a symbolic list")
			}
			var parts []string
			if sl.Obj != 0 {
				c := st.heap[sl.Obj].Val.(CellsV).C
				anySym := false
				for i := sl.Off.Val; i < sl.Off.Val+sl.Len.Val; i++ {
					if c[i].(StringV).Sym {
						anySym = true
					}
				}
				if anySym {
					// content not tracked: the joined string may carry what its parts carry
					var u *Term = ex.unsafeTerm(st, sep)
					for i := sl.Off.Val; i < sl.Off.Val+sl.Len.Val; i++ {
						u = Or(u, ex.unsafeTerm(st, c[i].(StringV)))
					}
					setRes(st, in, ex.cleanString(st, "join", u))
					return true
				}
				for i := sl.Off.Val; i < sl.Off.Val+sl.Len.Val; i++ {
					parts = append(parts, c[i].(StringV).S)
				}
			}
			setRes(st, in, StringV{S: strings.Join(parts, sep.S)})
			return true
		},
		"strings.Split": func(ex *Exec, st *State, args []Value, in *ssa.Call, pos token.Pos) bool {
			s, sep := args[0].(StringV), args[1].(StringV)
			if s.Sym && !sep.Sym && len(sep.S) == 1 && s.Max <= 6 {
				// a short symbolic string split at a given byte: one path per length and per pattern
				// of separator positions (<= 2^(Max+1) paths); the pieces keep their symbolic bytes
				for L := 0; L <= s.Max; L++ {
					for mask := 0; mask < 1<<uint(L); mask++ {
						c := Eq(s.Len, Const(64, uint64(L)))
						for i := 0; i < L; i++ {
							isSep := Eq(Select(s.Arr, Const(64, uint64(i))), Const(8, uint64(sep.S[0])))
							if mask&(1<<uint(i)) != 0 {
								c = And(c, isSep)
							} else {
								c = And(c, Not(isSep))
							}
						}
						if c.IsFalse() || !ex.feasible(st, c) {
							continue
						}
						o := st.clone()
						o.pc = append(o.pc, c)
						var cells []Value
						start := 0
						for i := 0; i <= L; i++ {
							if i == L || mask&(1<<uint(i)) != 0 {
								n := i - start
								cells = append(cells, StringV{Sym: true, Arr: ACopy(AConst(8, 0), Const(64, 0), s.Arr, Const(64, uint64(start)), Const(64, uint64(n))), Len: Const(64, uint64(n)), Max: n, U: s.U})
								start = i + 1
							}
						}
						n := Const(64, uint64(len(cells)))
						o.top().env[in] = SliceV{ex.newObj(o, CellsV{cells}), Const(64, 0), n, n}
						ex.work = append(ex.work, o)
					}
				}
				return false
			}
			if s.Sym || sep.Sym {
				panic("strings.Split of a symbolic string")
			}
			parts := strings.Split(s.S, sep.S)
			cells := make([]Value, len(parts))
			for i, p := range parts {
				cells[i] = StringV{S: p}
			}
			n := Const(64, uint64(len(parts)))
			setRes(st, in, SliceV{ex.newObj(st, CellsV{cells}), Const(64, 0), n, n})
			return true
		},
		"(*time.Ticker).Stop":  nop,
		"(*time.Ticker).Reset": nop,
		"time.Sleep": func(ex *Exec, st *State, args []Value, in *ssa.Call, pos token.Pos) bool {
			if len(st.threads) > 1 {
				st.threads[st.cur].sleeping = true
			}
			return true
		},
		"sync/atomic.LoadUint32":  atomicLoad,
		"sync/atomic.LoadInt64":   atomicLoad,
		"sync/atomic.LoadInt32":   atomicLoad,
		"sync/atomic.StoreUint32": func(ex *Exec, st *State, args []Value, in *ssa.Call, pos token.Pos) bool {
			return ex.store(st, args[0].(PtrV), args[1], pos)
		},
		"sync/atomic.AddInt64": atomicAdd,
		"sync/atomic.AddInt32": atomicAdd,
		"sync/atomic.CompareAndSwapUint32": func(ex *Exec, st *State, args []Value, in *ssa.Call, pos token.Pos) bool {
			p := args[0].(PtrV)
			v, ok := ex.load(st, p, pos)
			if !ok {
				return false
			}
			eq, ne := ex.fork(st, Eq(v.(*Term), args[1].(*Term)))
			if ne != nil {
				setRes(ne, in, False)
				if eq != nil {
					ex.work = append(ex.work, ne)
				}
			}
			if eq != nil {
				if !ex.store(eq, p, args[2], pos) {
					return false
				}
				setRes(eq, in, True)
				return eq == st
			}
			return ne == st
		},
		"golang.org/x/sys/unix.Mmap": func(ex *Exec, st *State, args []Value, in *ssa.Call, pos token.Pos) bool {
			n := args[2].(*Term)
			s := SliceV{ex.newObj(st, ArrV{AConst(8, 0), -1, 8}), Const(64, 0), n, n}
			setRes(st, in, TupleV{s, nilErr})
			return true
		},
		"golang.org/x/sys/unix.Munmap": func(ex *Exec, st *State, args []Value, in *ssa.Call, pos token.Pos) bool {
			s := args[0].(SliceV)
			if s.Obj != 0 {
				o := st.heap[s.Obj]
				if o.Freed {
					ex.finish(st, "panic", "double free", pos)
					return false
				}
				st.heap[s.Obj] = &Obj{Val: o.Val, Freed: true}
			}
			setRes(st, in, nilErr)
			return true
		},
		"github.com/jech/storrent/mono.Now": func(ex *Exec, st *State, args []Value, in *ssa.Call, pos token.Pos) bool {
			// seconds since an arbitrary origin, non-decreasing along the path
			v := ex.freshVar("mono.now", BV(32))
			for i := len(st.notes) - 1; i >= 0; i-- {
				if strings.HasPrefix(st.notes[i], "mono:") {
					st.pc = append(st.pc, Ule(Var(st.notes[i][5:], BV(32)), v))
					break
				}
			}
			st.pc = append(st.pc, Ule(Const(32, 1), v), Ult(v, Const(32, 1<<31)))
			st.notes = append(st.notes, "mono:"+v.Name)
			setRes(st, in, v)
			return true
		},
		"github.com/zeebo/bencode.DecodeBytes": func(ex *Exec, st *State, args []Value, in *ssa.Call, pos token.Pos) bool {
			target := args[1].(IfaceV)
			if v, ok := st.takeBenc(target.T.Underlying().(*types.Pointer).Elem()); ok {
				// the harness registered the decoded value (natively: the real encoding is decoded)
				if !ex.store(st, target.V.(PtrV), v, pos) {
					return false
				}
				setRes(st, in, nilErr)
				return true
			}
			st.stubbed = true
			pt := target.T.Underlying().(*types.Pointer)
			// error alternative
			e := st.clone()
			setRes(e, in, errVal("bencode"))
			ex.work = append(ex.work, e)
			alts := ex.havocAlts(st, pt.Elem(), "benc")
			for i, a := range alts {
				if !ex.store(a.st, target.V.(PtrV), a.v, pos) {
					continue
				}
				setRes(a.st, in, nilErr)
				if i > 0 {
					ex.work = append(ex.work, a.st)
				}
			}
			return true
		},
		"strings.Contains": func(ex *Exec, st *State, args []Value, in *ssa.Call, pos token.Pos) bool {
			a, b := args[0].(StringV), args[1].(StringV)
			if !a.Sym && !b.Sym {
				setRes(st, in, BoolC(strings.Contains(a.S, b.S)))
				return true
			}
			if a.Sym && !b.Sym {
				// a bounded symbolic string contains a given literal
				k := len(b.S)
				c := False
				for i := 0; i+k <= a.Max; i++ {
					m := Ule(Const(64, uint64(i+k)), a.Len)
					for j := 0; j < k; j++ {
						m = And(m, Eq(Select(a.Arr, Const(64, uint64(i+j))), Const(8, uint64(b.S[j]))))
					}
					c = Or(c, m)
				}
				if k == 0 {
					c = True
				}
				setRes(st, in, c)
				return true
			}
			st.imprecise = true // a symbolic needle: not modelled
			setRes(st, in, ex.freshVar("contains", BoolSort))
			return true
		},
		"crypto/sha1.Sum": func(ex *Exec, st *State, args []Value, in *ssa.Call, pos token.Pos) bool {
			s := args[0].(SliceV)
			if s.Obj != 0 && st.heap[s.Obj].Freed {
				ex.finish(st, "panic", "use after free (sha1.Sum of a freed buffer)", pos)
				return false
			}
			if len(st.threads) > 1 && !st.threads[st.cur].hashing {
				// a long operation: other goroutines may run between its start and its end;
				// the buffer is re-validated at the end (a free during the hash is a fault)
				st.threads[st.cur].hashing = true
				st.top().ip--
				return true
			}
			if len(st.threads) > 1 {
				st.threads[st.cur].hashing = false
			}
			setRes(st, in, ArrV{ex.sha1Of(st, s), 20, 8})
			return true
		},
	}
}

type shaApp struct {
	Name      string
	A, Off, N *Term
	Out       *Term
	OutLen    int
}

// sha1Of models SHA-1 as an uninterpreted function of the byte string.
func (ex *Exec) sha1Of(st *State, s SliceV) *Term { return ex.ufOf(st, "sha1", s, 20) }

// ufOf: an uninterpreted function from byte strings to outLen bytes: a fresh result per
// application plus functional consistency with every earlier application of the same function on
// the path (skolemised extensionality: results differ only if lengths differ or some byte differs).
func (ex *Exec) ufOf(st *State, name string, s SliceV, outLen int) *Term {
	var a *Term = AConst(8, 0)
	if s.Obj != 0 {
		av, _ := ex.sliceArr(st, s)
		a = av.A
	}
	for _, p := range st.sha1s {
		if p.Name == name && p.A == a && p.Off == s.Off && p.N == s.Len {
			return p.Out
		}
	}
	out := ex.freshArr(name)
	for _, p := range st.sha1s {
		if p.Name != name {
			continue
		}
		sk := ex.freshVar(name+".sk", BV(64))
		outEq := True
		for i := uint64(0); i < uint64(outLen); i++ {
			outEq = And(outEq, Eq(Select(out, Const(64, i)), Select(p.Out, Const(64, i))))
		}
		diff := And(Ult(sk, s.Len), Not(Eq(Select(a, Add(s.Off, sk)), Select(p.A, Add(p.Off, sk)))))
		st.pc = append(st.pc, Or(outEq, Not(Eq(s.Len, p.N)), diff))
	}
	st.sha1s = append(st.sha1s, shaApp{name, a, s.Off, s.Len, out, outLen})
	return out
}

func (ex *Exec) freshArr(prefix string) *Term {
	ex.fresh++
	return AVar(fmt.Sprintf("%s!%d", prefix, ex.fresh), 8)
}

// havocDeep: arbitrary value of a type, bounded containers
func (ex *Exec) havocDeep(st *State, t types.Type, why string) Value {
	if w, ok := isScalarType(t); ok {
		if w == 0 {
			return ex.freshVar(why, BoolSort)
		}
		return ex.freshVar(why, BV(w))
	}
	switch u := t.Underlying().(type) {
	case *types.Struct:
		f := make([]Value, u.NumFields())
		for i := range f {
			f[i] = ex.havocDeep(st, u.Field(i).Type(), why+"."+u.Field(i).Name())
		}
		return StructV{f}
	case *types.Slice:
		if w, ok := isScalarType(u.Elem()); ok && w > 0 {
			n := ex.freshVar(why+".len", BV(64))
			st.pc = append(st.pc, Ule(n, Const(64, 13)))
			ex.fresh++
			return SliceV{ex.newObj(st, ArrV{AVar(fmt.Sprintf("%s!%d", why, ex.fresh), w), -1, w}), Const(64, 0), n, n}
		}
		return zeroValue(t)
	case *types.Pointer:
		// nil or pointer to havoc'd value: fork is not possible here; use non-nil (callers that care split)
		if _, ok := isScalarType(u.Elem()); ok {
			if nilChoice[why] {
				return PtrV{}
			}
			return PtrV{Obj: ex.newObj(st, ex.havocDeep(st, u.Elem(), why))}
		}
		return PtrV{}
	case *types.Basic:
		if u.Info()&types.IsString != 0 {
			return StringV{S: "?"}
		}
	}
	return zeroValue(t)
}

var nilChoice = map[string]bool{}

func muOp(kind string) intrinsic {
	return func(ex *Exec, st *State, args []Value, in *ssa.Call, pos token.Pos) bool {
		k := ptrKey(args[0].(PtrV))
		m := st.mus[k]
		switch kind {
		case "lock":
			if m.writer != 0 || m.readers != 0 {
				if len(st.threads) == 1 {
					ex.finish(st, "blocked", "self-deadlock on mutex", pos)
					return false
				}
				panic("lock granted on held mutex")
			}
			m.writer = st.cur + 1
		case "unlock":
			if m.writer == 0 {
				ex.finish(st, "panic", "unlock of unlocked mutex", pos)
				return false
			}
			m.writer = 0
		case "rlock":
			m.readers++
		case "runlock":
			m.readers--
		}
		st.mus[k] = m
		ex.wake(st)
		return true
	}
}

func init() {
	cas := intrinsics["sync/atomic.CompareAndSwapUint32"]
	store := intrinsics["sync/atomic.StoreUint32"]
	for _, ty := range []string{"Int32", "Int64", "Uint64", "Uintptr"} {
		intrinsics["sync/atomic.CompareAndSwap"+ty] = cas
		intrinsics["sync/atomic.Store"+ty] = store
		intrinsics["sync/atomic.Load"+ty] = atomicLoad
		intrinsics["sync/atomic.Add"+ty] = atomicAdd
	}
	intrinsics["sync/atomic.AddUint32"] = atomicAdd
	for n := range intrinsics {
		if strings.HasPrefix(n, "sync/atomic.") {
			visibleOps[n] = "atomic"
		}
	}
}

func sliceKey(st *State, ex *Exec, s SliceV) string {
	if s.Obj == 0 {
		return "nil"
	}
	a, _ := ex.sliceArr(st, s)
	return fmt.Sprintf("%d:%d:%d", a.A.id, s.Off.id, s.Len.id)
}

func (ex *Exec) bigOf(st *State, p PtrV, pos token.Pos) (BigV, bool) {
	v, ok := ex.load(st, p, pos)
	if !ok {
		return BigV{}, false
	}
	if b, isBig := v.(BigV); isBig && b.Bytes != nil {
		return b, true
	}
	// a big.Int never assigned by modelled code (package constant, zero value): an arbitrary but
	// fixed value per object
	key := fmt.Sprintf("obj:%d", p.Obj)
	a, ok := st.bigBytes[key]
	if !ok {
		a = ex.freshArr("bigconst")
		st.bigBytes[key] = a
	}
	return BigV{Key: key, Bytes: a}, true
}

func init() {
	ret0 := func(ex *Exec, st *State, args []Value, in *ssa.Call, pos token.Pos) bool {
		setRes(st, in, args[0])
		return true
	}
	keep := func(ex *Exec, st *State, args []Value, in *ssa.Call, pos token.Pos) bool {
		// SetString / SetInt64 / Sub in package init: the object keeps an arbitrary fixed value
		if tup, ok := in.Type().(*types.Tuple); ok && tup.Len() == 2 {
			setRes(st, in, TupleV{args[0], True})
			return true
		}
		setRes(st, in, args[0])
		return true
	}
	intrinsics["(*math/big.Int).SetString"] = keep
	intrinsics["(*math/big.Int).SetInt64"] = keep
	intrinsics["(*math/big.Int).Sub"] = keep
	intrinsics["(*math/big.Int).SetBytes"] = func(ex *Exec, st *State, args []Value, in *ssa.Call, pos token.Pos) bool {
		// the value of a big-endian byte string, kept in its 96-byte form (right-aligned)
		b := args[1].(SliceV)
		var form *Term = AConst(8, 0)
		if b.Obj != 0 {
			a, _ := ex.sliceArr(st, b)
			form = ACopy(AConst(8, 0), Sub(Const(64, 96), b.Len), a.A, b.Off, b.Len)
		}
		ex.store(st, args[0].(PtrV), BigV{Key: "bytes", Bytes: form}, pos)
		return ret0(ex, st, args, in, pos)
	}
	intrinsics["(*math/big.Int).Exp"] = func(ex *Exec, st *State, args []Value, in *ssa.Call, pos token.Pos) bool {
		// z.Exp(x, y, m): an uninterpreted function of the 96-byte forms of x and y
		x, ok1 := ex.bigOf(st, args[1].(PtrV), pos)
		y, ok2 := ex.bigOf(st, args[2].(PtrV), pos)
		if !ok1 || !ok2 {
			return false
		}
		cat := ACopy(ACopy(AConst(8, 0), Const(64, 0), x.Bytes, Const(64, 0), Const(64, 96)), Const(64, 96), y.Bytes, Const(64, 0), Const(64, 96))
		n := Const(64, 192)
		msg := SliceV{ex.newObj(st, ArrV{cat, -1, 8}), Const(64, 0), n, n}
		out := ex.ufOf(st, "modexp", msg, 96)
		ex.store(st, args[0].(PtrV), BigV{Key: "exp", Bytes: out}, pos)
		return ret0(ex, st, args, in, pos)
	}
	intrinsics["(*math/big.Int).FillBytes"] = func(ex *Exec, st *State, args []Value, in *ssa.Call, pos token.Pos) bool {
		b, ok := ex.bigOf(st, args[0].(PtrV), pos)
		if !ok {
			return false
		}
		buf := args[1].(SliceV)
		if buf.Obj != 0 {
			ba, _ := ex.sliceArr(st, buf)
			// big-endian, right-aligned: the last len(buf) bytes of the 96-byte form
			st.heap[buf.Obj] = &Obj{Val: ArrV{ACopy(ba.A, buf.Off, b.Bytes, Sub(Const(64, 96), buf.Len), buf.Len), ba.N, ba.ElW}}
		}
		setRes(st, in, args[1])
		return true
	}
	intrinsics["(*math/big.Int).Bytes"] = func(ex *Exec, st *State, args []Value, in *ssa.Call, pos token.Pos) bool {
		// the minimal big-endian form: the 96-byte form with its leading zero bytes stripped
		b, ok := ex.bigOf(st, args[0].(PtrV), pos)
		if !ok {
			return false
		}
		src := b.Bytes
		z := ex.freshVar("big.lead", BV(64)) // number of leading zero bytes
		st.pc = append(st.pc, Ule(z, Const(64, 96)))
		j := ex.freshVar("big.j", BV(64))
		st.pc = append(st.pc, Or(Not(Ult(j, z)), Eq(Select(src, j), Const(8, 0))))
		st.pc = append(st.pc, Or(Eq(z, Const(64, 96)), Not(Eq(Select(src, z), Const(8, 0)))))
		n := Sub(Const(64, 96), z)
		setRes(st, in, SliceV{ex.newObj(st, ArrV{ACopy(AConst(8, 0), Const(64, 0), src, z, n), -1, 8}), Const(64, 0), n, n})
		return true
	}
	intrinsics["(*math/big.Int).Cmp"] = func(ex *Exec, st *State, args []Value, in *ssa.Call, pos token.Pos) bool {
		setRes(st, in, ex.freshVar("big.cmp", BV(64)))
		return true
	}
	intrinsics["crypto/rc4.NewCipher"] = func(ex *Exec, st *State, args []Value, in *ssa.Call, pos token.Pos) bool {
		k := args[0].(SliceV)
		key := sliceKey(st, ex, k)
		ks, ok := st.ksByKey[key]
		if !ok {
			ks = ex.freshArr("rc4ks")
			st.ksByKey[key] = ks
		}
		setRes(st, in, TupleV{PtrV{Obj: ex.newObj(st, CipherV{KS: ks, Pos: Const(64, 0)})}, nilErr})
		return true
	}
	intrinsics["(*crypto/rc4.Cipher).XORKeyStream"] = func(ex *Exec, st *State, args []Value, in *ssa.Call, pos token.Pos) bool {
		cp := args[0].(PtrV)
		c := st.heap[cp.Obj].Val.(CipherV)
		dst, src := args[1].(SliceV), args[2].(SliceV)
		if !ex.require(st, Ule(src.Len, dst.Len), "rc4: output smaller than input", pos) {
			return false
		}
		if src.Obj != 0 && dst.Obj != 0 {
			da, _ := ex.sliceArr(st, dst)
			sa, _ := ex.sliceArr(st, src)
			st.heap[dst.Obj] = &Obj{Val: ArrV{AXor(da.A, dst.Off, sa.A, src.Off, c.KS, c.Pos, src.Len), da.N, da.ElW}}
		}
		st.heap[cp.Obj] = &Obj{Val: CipherV{KS: c.KS, Pos: Add(c.Pos, src.Len)}}
		return true
	}
	// streaming SHA-1: the digest object accumulates its input; Sum applies the uninterpreted function
	intrinsics["crypto/sha1.New"] = func(ex *Exec, st *State, args []Value, in *ssa.Call, pos token.Pos) bool {
		id := ex.newObj(st, WriterV{A: AConst(8, 0), N: Const(64, 0)})
		setRes(st, in, IfaceV{T: in.Type(), V: OpaqueV{"sha1digest", id}})
		return true
	}
}

func nop(ex *Exec, st *State, args []Value, in *ssa.Call, pos token.Pos) bool { return true }
func atomicLoad(ex *Exec, st *State, args []Value, in *ssa.Call, pos token.Pos) bool {
	v, ok := ex.load(st, args[0].(PtrV), pos)
	if !ok {
		return false
	}
	setRes(st, in, v)
	return true
}
func atomicAdd(ex *Exec, st *State, args []Value, in *ssa.Call, pos token.Pos) bool {
	p := args[0].(PtrV)
	v, ok := ex.load(st, p, pos)
	if !ok {
		return false
	}
	nv := Add(v.(*Term), args[1].(*Term))
	if !ex.store(st, p, nv, pos) {
		return false
	}
	setRes(st, in, nv)
	return true
}

func clockFloor(st *State) *Term {
	for i := len(st.notes) - 1; i >= 0; i-- {
		if strings.HasPrefix(st.notes[i], "clock:") {
			return Var(st.notes[i][6:], BV(64))
		}
	}
	return Const(64, 1)
}
func mkTime(t types.Type, ext *Term) Value {
	z := zeroValue(t).(StructV)
	f := append([]Value(nil), z.F...)
	f[1] = ext
	return StructV{f}
}
func timeExt(v Value) *Term { return v.(StructV).F[1].(*Term) }

type alt struct {
	st *State
	v  Value
}

// havocAlts: arbitrary value of type t; container shapes are enumerated (alternatives on cloned states).
// alts[0].st is the given state.
func (ex *Exec) havocAlts(st *State, t types.Type, why string) []alt {
	if w, ok := isScalarType(t); ok && w > 0 {
		for suffix, vals := range havocHints {
			if strings.HasSuffix(why, suffix) {
				var out []alt
				// symbolic remainder of the domain: not a multiple of 16384 (rejected before any division)
				v := ex.freshVar(why, BV(w))
				st.pc = append(st.pc, Not(Eq(URem(v, Const(w, 16384)), Const(w, 0))))
				out = append(out, alt{st, v})
				for _, c := range vals {
					s2 := st.clone()
					s2.pc = s2.pc[:len(s2.pc)-1]
					out = append(out, alt{s2, Const(w, c)})
				}
				return out
			}
		}
	}
	if w, ok := isScalarType(t); ok {
		if w == 0 {
			return []alt{{st, ex.freshVar(why, BoolSort)}}
		}
		return []alt{{st, ex.freshVar(why, BV(w))}}
	}
	switch u := t.Underlying().(type) {
	case *types.Basic:
		if u.Info()&types.IsString != 0 {
			ex.fresh++
			nm := fmt.Sprintf("%s!%d", why, ex.fresh)
			n := ex.namedVar(nm+".len", BV(64))
			st.pc = append(st.pc, Ule(n, Const(64, 2)))
			return []alt{{st, StringV{Sym: true, Arr: AVar(nm, 8), Len: n, Max: 2}}}
		}
	case *types.Struct:
		cur := []alt{{st, StructV{make([]Value, u.NumFields())}}}
		for i := 0; i < u.NumFields(); i++ {
			var next []alt
			for _, c := range cur {
				fas := ex.havocAlts(c.st, u.Field(i).Type(), why+"."+u.Field(i).Name())
				for k, fa := range fas {
					base := c.v.(StructV)
					f := append([]Value(nil), base.F...)
					f[i] = fa.v
					_ = k
					next = append(next, alt{fa.st, StructV{f}})
				}
			}
			cur = next
		}
		return cur
	case *types.Slice:
		if w, ok := isScalarType(u.Elem()); ok && w > 0 {
			ex.fresh++
			n := ex.freshVar(why+".len", BV(64))
			st.pc = append(st.pc, Ule(n, Const(64, 60)))
			return []alt{{st, SliceV{ex.newObj(st, ArrV{AVar(fmt.Sprintf("%s!%d", why, ex.fresh), w), -1, w}), Const(64, 0), n, n}}}
		}
		// non-scalar elements: nil, or 1..2 elements
		out := []alt{}
		for n := 2; n >= 0; n-- {
			s2 := st
			if n > 0 {
				s2 = st.clone()
			}
			if n == 0 {
				out = append([]alt{{s2, zeroValue(t)}}, out...)
				continue
			}
			cur := []alt{{s2, CellsV{make([]Value, n)}}}
			for i := 0; i < n; i++ {
				var next []alt
				for _, c := range cur {
					eas := ex.havocAlts(c.st, u.Elem(), fmt.Sprintf("%s[%d]", why, i))
					for _, ea := range eas {
						cells := append([]Value(nil), c.v.(CellsV).C...)
						cells[i] = ea.v
						next = append(next, alt{ea.st, CellsV{cells}})
					}
				}
				cur = next
			}
			for _, c := range cur {
				nn := Const(64, uint64(n))
				out = append(out, alt{c.st, SliceV{ex.newObj(c.st, c.v), Const(64, 0), nn, nn}})
			}
		}
		return out
	}
	return []alt{{st, zeroValue(t)}}
}

var havocHints = map[string][]uint64{
	".PieceLength": {0, 16384, 49152, 0xFFFFC000},
}
