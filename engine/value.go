package main

import (
	"fmt"
	"go/types"

	"golang.org/x/tools/go/ssa"
)

type Value interface{}

// scalars are *Term

type PathEl struct {
	Field int   // >=0: struct field; -1: element index; -2: window of N elements starting at Idx (slice-to-array-pointer)
	Idx   *Term // element index (BV64) if Field < 0
	N     int
}

type PtrV struct {
	Obj  int // 0 = nil
	Path []PathEl
}

type SliceV struct {
	Obj           int // 0 = nil slice
	Off, Len, Cap *Term
}

type StructV struct{ F []Value }

// array of scalars as array term; N<0 => dynamic (backing store of a slice)
type ArrV struct {
	A   *Term
	N   int
	ElW int
}

// array of non-scalars
type CellsV struct{ C []Value }

// lazily materialised array of non-scalars with symbolic length
type lazyCell struct {
	Idx *Term
	Val Value
}
type LazyV struct {
	Known []lazyCell
	ElemT types.Type
}

type IfaceV struct {
	T types.Type // nil => nil interface
	V Value
}

type StringV struct {
	S   string
	Sym bool  // symbolic: bytes Arr[0..Len), Len <= Max
	Arr *Term
	Len *Term
	Max int
	U   *Term // optional: "contains a character of the unsafe class" when the content is not tracked (formatted / escaped strings)
}

type FuncV struct {
	Fn    *ssa.Function
	Bound []Value
	Builtin *ssa.Builtin
}

type TupleV []Value

type MapV struct{ Obj int }
type ChanV struct{ Obj int }

// stream object payloads (intrinsics)
type StreamV struct {
	A          *Term // byte array
	Base, N    *Term // bytes [Base, Base+N)
	Pos        *Term // consumed so far
}
type LimitV struct {
	Under int   // object id of underlying stream
	Rem   *Term // remaining
}
type OpaqueV struct{ Kind string; Ref int }

// an RC4 cipher: keystream as an uninterpreted byte array per key, and the position in it
type CipherV struct {
	KS  *Term
	Pos *Term
}

// a math/big integer as an opaque algebraic value
type BigV struct {
	Key   string // identity: "bytes:<arr id>:<off id>", "exp(<base>,<exp>)", "const:..."
	Bytes *Term  // 96-byte big-endian form (array), nil if never materialised
}

// output side of a bufio.Writer / bytes.Buffer pair: everything written, in order
type WriterV struct {
	A     *Term
	N     *Term
	Under int // object id of the bytes.Buffer (0 if none)
}

type ChanState struct {
	Env    bool
	Budget int // Env only: > 0 = number of receives the environment still provides (then silent); 0 = unlimited
	Cap    int
	Q      []Value
	Closed bool
}

type Obj struct {
	Val   Value
	Freed bool
	T     types.Type // element type for objects created by Alloc (nil otherwise)
}

func isScalarType(t types.Type) (int, bool) {
	switch u := t.Underlying().(type) {
	case *types.Basic:
		switch u.Kind() {
		case types.Bool, types.UntypedBool:
			return 0, true
		case types.Int8, types.Uint8:
			return 8, true
		case types.Int16, types.Uint16:
			return 16, true
		case types.Int32, types.Uint32:
			return 32, true
		case types.Int, types.Uint, types.Int64, types.Uint64, types.Uintptr, types.UntypedInt, types.UntypedRune:
			return 64, true
		}
	}
	return 0, false
}

func isSigned(t types.Type) bool {
	if b, ok := t.Underlying().(*types.Basic); ok {
		return b.Info()&types.IsUnsigned == 0 && b.Info()&types.IsInteger != 0
	}
	return false
}

func zeroValue(t types.Type) Value {
	if w, ok := isScalarType(t); ok {
		if w == 0 {
			return False
		}
		return Const(w, 0)
	}
	switch u := t.Underlying().(type) {
	case *types.Basic:
		if u.Info()&types.IsString != 0 {
			return StringV{S: ""}
		}
		if u.Info()&types.IsFloat != 0 {
			return OpaqueV{"float", 0}
		}
		if u.Kind() == types.UnsafePointer {
			return PtrV{}
		}
	case *types.Pointer:
		return PtrV{}
	case *types.Slice:
		return SliceV{0, Const(64, 0), Const(64, 0), Const(64, 0)}
	case *types.Struct:
		f := make([]Value, u.NumFields())
		for i := range f {
			f[i] = zeroValue(u.Field(i).Type())
		}
		return StructV{f}
	case *types.Array:
		if w, ok := isScalarType(u.Elem()); ok && w > 0 {
			return ArrV{AConst(w, 0), int(u.Len()), w}
		}
		c := make([]Value, u.Len())
		for i := range c {
			c[i] = zeroValue(u.Elem())
		}
		return CellsV{c}
	case *types.Interface:
		return IfaceV{}
	case *types.Map:
		return MapV{}
	case *types.Chan:
		return ChanV{}
	case *types.Signature:
		return FuncV{}
	case *types.Tuple:
		tv := make(TupleV, u.Len())
		for i := range tv {
			tv[i] = zeroValue(u.At(i).Type())
		}
		return tv
	}
	panic(fmt.Sprintf("zeroValue: unsupported type %v (%T)", t, t.Underlying()))
}
