package main

import (
	"bufio"
	"encoding/json"
	"fmt"
	"os"
	"runtime/debug"
	"sort"
	"strings"
	"time"

	"golang.org/x/tools/go/ssa"
)

// HarnessCfg is one harness instance: a harness function of a repo package, run with
// concrete parameters (case splits), bounds and cuts.
type HarnessCfg struct {
	Pkg      string            `json:"pkg"`  // package directory relative to /repo
	Func     string            `json:"func"` // harness function name
	Tier     string            `json:"tier,omitempty"`
	Loop     int               `json:"loop,omitempty"`
	Preempt  int               `json:"preempt,omitempty"`
	Cuts     []string          `json:"cuts,omitempty"`
	GoSkip   []string          `json:"goskip,omitempty"`
	Params   map[string]int64  `json:"params,omitempty"`
	TimeoutS int               `json:"timeout_s,omitempty"`
	QueryMs  int               `json:"query_ms,omitempty"`
	Native   bool              `json:"native,omitempty"`
	Redirect map[string]string `json:"redirect,omitempty"` // callee -> harness-package function standing in for it (same signature, receiver first)
	NoMerge  bool              `json:"nomerge,omitempty"`
	UnwindIsViolation bool     `json:"unwind_is_violation,omitempty"` // the harness's subject is termination: exceeding the (generous) loop bound is reported
	Note     string            `json:"note,omitempty"`
	Pin      *Model            `json:"pin,omitempty"`
	Known    map[string]string `json:"-"`
}

func (c *HarnessCfg) cut(name string) bool {
	for _, x := range c.Cuts {
		if x == name {
			return true
		}
	}
	return false
}
func (c *HarnessCfg) goSkip(name string) bool {
	for _, x := range c.GoSkip {
		if x == name {
			return true
		}
	}
	return false
}

func (c *HarnessCfg) ID() string {
	s := c.Pkg + "." + c.Func
	if len(c.Params) > 0 {
		var ks []string
		for k := range c.Params {
			ks = append(ks, k)
		}
		sort.Strings(ks)
		var ps []string
		for _, k := range ks {
			ps = append(ps, fmt.Sprintf("%s=%d", k, c.Params[k]))
		}
		s += "[" + strings.Join(ps, ",") + "]"
	}
	return s
}

// HarnessResult is what a worker reports for one instance.
type HarnessResult struct {
	ID         string        `json:"id"`
	Cfg        HarnessCfg    `json:"cfg"`
	Error      string        `json:"error,omitempty"`
	Paths      int           `json:"paths"`
	Blocks     int           `json:"blocks"`
	Outcomes   []OutcomeJ    `json:"outcomes,omitempty"`
	Kinds      map[string]int `json:"kinds"`
	Asserts    []AssertStat  `json:"asserts"`
	Reached    []string      `json:"reached"`
	Labels     []string      `json:"labels"` // labels present in the harness source
	Witness    map[string]*Model `json:"witness,omitempty"`
	Funcs      []string      `json:"funcs"`
	Intrinsics []string      `json:"intrinsics"`
	Queries    int           `json:"queries"`
	Sat        int           `json:"sat"`
	Unsat      int           `json:"unsat"`
	Unknown    int           `json:"unknown"`
	SolverS    float64       `json:"solver_s"`
	WallS      float64       `json:"wall_s"`
	TimedOut   bool          `json:"timed_out,omitempty"`
	Cross      CrossResult   `json:"cross"`
	Imprecise  int           `json:"imprecise"`
}

type OutcomeJ struct {
	Kind      string   `json:"kind"`
	Msg       string   `json:"msg"`
	Pos       string   `json:"pos"`
	Func      string   `json:"func"`
	Model     *Model   `json:"model,omitempty"`
	Reached   []string `json:"reached,omitempty"`
	Sched     []int    `json:"sched,omitempty"`
	Imprecise bool     `json:"imprecise,omitempty"`
	Stubbed   bool     `json:"stubbed,omitempty"`
	Stack     []string `json:"stack,omitempty"`
	Count     int      `json:"count"`
}

type CrossResult struct {
	VCs      int `json:"vcs"`
	Agree    int `json:"agree"`
	Disagree int `json:"disagree"`
	Timeout  int `json:"timeout"`
	Detail   []string `json:"detail,omitempty"`
}

func main() {
	if len(os.Args) < 2 {
		fmt.Println("usage: gosym check <Cxx> <quick|thorough> | run <pkg> <Func> [k=v ...] | worker")
		os.Exit(2)
	}
	switch os.Args[1] {
	case "worker":
		workerMain()
	case "run":
		runMain(os.Args[2:])
	case "check":
		os.Exit(checkMain(os.Args[2:]))
	case "replay":
		os.Exit(replayMain(os.Args[2:]))
	case "selftest":
		os.Exit(selftestMain())
	default:
		fmt.Println("unknown command")
		os.Exit(2)
	}
}

// labelsIn collects the constant labels passed to vReach in fn and in the harness-file
// functions it (transitively) references.
func labelsIn(fn *ssa.Function) []string {
	seen := map[*ssa.Function]bool{}
	lab := map[string]bool{}
	var walk func(f *ssa.Function)
	walk = func(f *ssa.Function) {
		if f == nil || seen[f] || f.Blocks == nil {
			return
		}
		seen[f] = true
		for _, b := range f.Blocks {
			for _, in := range b.Instrs {
				var cc *ssa.CallCommon
				switch x := in.(type) {
				case *ssa.Call:
					cc = &x.Call
				case *ssa.Go:
					cc = &x.Call
				case *ssa.Defer:
					cc = &x.Call
				case *ssa.MakeClosure:
					walk(x.Fn.(*ssa.Function))
				}
				if cc == nil {
					continue
				}
				if cal := cc.StaticCallee(); cal != nil {
					if cal.Name() == "vReach" && len(cc.Args) == 1 {
						if c, ok := cc.Args[0].(*ssa.Const); ok {
							lab[f.Name()+":"+strings.Trim(c.Value.ExactString(), "\"")] = true
						}
					} else if isHarnessFile(cal) {
						walk(cal)
					}
				}
				for _, a := range cc.Args {
					if mc, ok := a.(*ssa.MakeClosure); ok {
						walk(mc.Fn.(*ssa.Function))
					}
				}
			}
		}
		for _, af := range f.AnonFuncs {
			walk(af)
		}
	}
	walk(fn)
	return sortedKeys(lab)
}

func isHarnessFile(fn *ssa.Function) bool {
	if fn == nil || fn.Prog == nil || !fn.Pos().IsValid() {
		return false
	}
	return strings.Contains(fn.Prog.Fset.Position(fn.Pos()).Filename, "zz_verif_")
}

func runHarness(prog *ssa.Program, cfg HarnessCfg) (res HarnessResult) {
	t0 := time.Now()
	res.ID = cfg.ID()
	res.Cfg = cfg
	res.Kinds = map[string]int{}
	defer func() {
		if r := recover(); r != nil {
			res.Error = fmt.Sprintf("engine panic: %v\n%s", r, debug.Stack())
		}
		res.WallS = time.Since(t0).Seconds()
	}()
	fn := findFunc(prog, cfg.Pkg, cfg.Func)
	if fn == nil {
		res.Error = "harness function not found: " + cfg.Pkg + "." + cfg.Func
		return
	}
	if cfg.Loop == 0 {
		cfg.Loop = 16
	}
	if cfg.QueryMs == 0 {
		cfg.QueryMs = 20000
	}
	if cfg.TimeoutS == 0 {
		cfg.TimeoutS = 600
	}
	resetTerms()
	var logf *os.File
	if p := os.Getenv("GOSYM_SMTLOG"); p != "" {
		logf, _ = os.Create(p)
		defer logf.Close()
	}
	var sv *Solver
	if logf != nil {
		sv = NewSolver(cfg.QueryMs, logf)
	} else {
		sv = NewSolver(cfg.QueryMs, nil)
	}
	defer sv.Close()
	ex := &Exec{prog: prog, solver: sv, cfg: &cfg, globals: map[*ssa.Global]int{}, funcs: map[string]bool{}, intr: map[string]bool{},
		loopBound: cfg.Loop, reachedAll: map[string]bool{}, satVCs: map[string]int{}, asserts: map[string]*AssertStat{}, witness: map[string]*Model{},
		deadline: t0.Add(time.Duration(cfg.TimeoutS) * time.Second)}
	res.Labels = labelsIn(fn)
	ex.Run(fn)
	res.Paths, res.Blocks = ex.paths, ex.blocks
	res.TimedOut = ex.timedOut
	// aggregate outcomes: one entry per (kind,msg,func), first model kept
	agg := map[string]*OutcomeJ{}
	var order []string
	for _, o := range ex.outcomes {
		res.Kinds[o.Kind]++
		if o.Imprecise {
			res.Imprecise++
		}
		if o.Kind == "return" {
			continue
		}
		k := o.Kind + "|" + o.Msg + "|" + o.Func
		if a, ok := agg[k]; ok {
			a.Count++
			continue
		}
		agg[k] = &OutcomeJ{Kind: o.Kind, Msg: o.Msg, Pos: o.Pos.String(), Func: o.Func, Model: o.Model, Reached: o.Reached, Sched: o.Sched, Imprecise: o.Imprecise, Stubbed: o.Stubbed, Stack: o.Stack, Count: 1}
		order = append(order, k)
	}
	for _, k := range order {
		res.Outcomes = append(res.Outcomes, *agg[k])
	}
	var aks []string
	for k := range ex.asserts {
		aks = append(aks, k)
	}
	sort.Strings(aks)
	for _, k := range aks {
		res.Asserts = append(res.Asserts, *ex.asserts[k])
	}
	res.Reached = sortedKeys(ex.reachedAll)
	res.Witness = ex.witness
	res.Funcs = sortedKeys(ex.funcs)
	res.Intrinsics = sortedKeys(ex.intr)
	res.Queries, res.Sat, res.Unsat, res.Unknown = sv.Queries, sv.Sat, sv.Unsat, sv.Unknown
	res.SolverS = sv.Time.Seconds()
	if os.Getenv("GOSYM_NOCROSS") == "" {
		res.Cross = crossCheck(ex.vcs)
	}
	return
}

func workerMain() {
	var pats []string
	for _, a := range os.Args[2:] {
		pats = append(pats, a)
	}
	if len(pats) == 0 {
		pats = []string{"./..."}
	}
	prog, err := loadProgram(pats)
	w := bufio.NewWriter(os.Stdout)
	enc := json.NewEncoder(w)
	sc := bufio.NewScanner(os.Stdin)
	sc.Buffer(make([]byte, 1<<20), 1<<26)
	for sc.Scan() {
		var cfg HarnessCfg
		if e := json.Unmarshal(sc.Bytes(), &cfg); e != nil {
			continue
		}
		var res HarnessResult
		if err != nil {
			res = HarnessResult{ID: cfg.ID(), Cfg: cfg, Error: "load: " + err.Error()}
		} else {
			res = runHarness(prog, cfg)
		}
		enc.Encode(res)
		w.Flush()
	}
}

// runMain: debugging entry: gosym run <pkgdir> <Func> [loop=N] [preempt=N] [cut=f] [goskip=f] [name=value ...]
func runMain(args []string) {
	cfg := HarnessCfg{Pkg: args[0], Func: args[1], Params: map[string]int64{}}
	for _, a := range args[2:] {
		kv := strings.SplitN(a, "=", 2)
		switch kv[0] {
		case "loop":
			fmt.Sscan(kv[1], &cfg.Loop)
		case "preempt":
			fmt.Sscan(kv[1], &cfg.Preempt)
		case "timeout":
			fmt.Sscan(kv[1], &cfg.TimeoutS)
		case "cut":
			cfg.Cuts = append(cfg.Cuts, kv[1])
		case "goskip":
			cfg.GoSkip = append(cfg.GoSkip, kv[1])
		case "redirect":
			ft := strings.SplitN(kv[1], "=>", 2)
			if cfg.Redirect == nil {
				cfg.Redirect = map[string]string{}
			}
			cfg.Redirect[ft[0]] = ft[1]
		default:
			var v int64
			fmt.Sscan(kv[1], &v)
			cfg.Params[kv[0]] = v
		}
	}
	t0 := time.Now()
	pat := "./" + cfg.Pkg
	prog, err := loadProgram([]string{pat, "./zz_verif_model"})
	if err != nil {
		fmt.Println(err)
		os.Exit(2)
	}
	fmt.Printf("load %.1fs\n", time.Since(t0).Seconds())
	res := runHarness(prog, cfg)
	if res.Error != "" {
		fmt.Println("ERROR:", res.Error)
	}
	fmt.Printf("exec %.1fs paths=%d blocks=%d queries=%d (sat %d unsat %d unknown %d) solver %.1fs timedout=%v\n", res.WallS, res.Paths, res.Blocks, res.Queries, res.Sat, res.Unsat, res.Unknown, res.SolverS, res.TimedOut)
	fmt.Println("kinds:", res.Kinds)
	fmt.Println("labels:", res.Labels)
	fmt.Println("reached:", res.Reached)
	for _, a := range res.Asserts {
		fmt.Printf("  assert %-60q checked=%d failed=%d unknown=%d\n", a.Msg, a.Checked, a.Failed, a.Unknown)
	}
	for _, o := range res.Outcomes {
		fmt.Printf("  %s x%d: %s at %s in %s\n", strings.ToUpper(o.Kind), o.Count, o.Msg, o.Pos, o.Func)
		if o.Model != nil {
			var ms []string
			for n, v := range o.Model.Scalars {
				if !strings.Contains(n, "!") {
					ms = append(ms, fmt.Sprintf("%s=%d", n, v))
				}
			}
			sort.Strings(ms)
			fmt.Printf("     model: %s sched=%v\n", strings.Join(ms, " "), o.Sched)
		}
	}
	if forkStats != nil {
		type kv struct {
			k string
			v int
		}
		var l []kv
		for k, v := range forkStats {
			l = append(l, kv{k, v})
		}
		sort.Slice(l, func(i, j int) bool { return l[i].v > l[j].v })
		for i, x := range l {
			if i < 25 {
				fmt.Printf("  forks %5d %s\n", x.v, x.k)
			}
		}
	}
	fmt.Println("cross:", res.Cross)
	if os.Getenv("GOSYM_VERBOSE") != "" {
		fmt.Println("functions:", res.Funcs)
	}
	fmt.Println("intrinsics:", res.Intrinsics)
}
